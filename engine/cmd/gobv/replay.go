package main

import (
	"bytes"
	"context"
	"encoding/json"
	"fmt"
	"go/types"
	"math/big"
	"os"
	"os/exec"
	"path/filepath"
	"regexp"
	"strings"
	"time"

	"golang.org/x/tools/go/ssa"
)

// Replay of a solver counterexample against the real code.
//
// A failed obligation with a model is replayed when its function is within reach of the harness generator:
//   - a package-level function, or a closure returned by a package-level factory whose captured variables are
//     exactly parameters of that factory (the closure is then obtained by calling the factory);
//   - every parameter is an integer, a bool, a slice of those, a function value (nil or a stub that does
//     nothing and returns zero values), or an interface/pointer that the model sets to nil.
// The model's inputs are extracted with (get-value), a test is injected into the package of /repo with
// `go test -overlay` (nothing is written into the repository), and the real outcome is compared with the
// outcome the model predicts (return values, or a panic for no-panic/safety obligations). A replay is
// CONFIRMED only when the real code produces the predicted outcome and the violated clause speaks about
// parameters and results only (then the model's falsifying valuation is a real execution).

type ReplayVar struct {
	Name string
	Typ  types.Type
	V    Val
}

type ReplayInfo struct {
	Fn     *ssa.Function
	Params []ReplayVar
	Free   []ReplayVar
}

// ExitInfo describes the exit a query was generated at (nil for obligations inside the body).
type ExitInfo struct {
	Results []Val
	Panic   bool
}

const replaySliceCap = 8

type sx struct {
	atom string
	list []*sx
}

func parseSx(s string) []*sx {
	var stack [][]*sx
	cur := []*sx{}
	i := 0
	for i < len(s) {
		c := s[i]
		switch {
		case c == '(':
			stack = append(stack, cur)
			cur = []*sx{}
			i++
		case c == ')':
			n := &sx{list: cur}
			if len(stack) == 0 {
				return cur
			}
			cur = append(stack[len(stack)-1], n)
			stack = stack[:len(stack)-1]
			i++
		case c == ' ' || c == '\n' || c == '\t' || c == '\r':
			i++
		case c == '"':
			j := i + 1
			for j < len(s) && s[j] != '"' {
				j++
			}
			cur = append(cur, &sx{atom: s[i:min(j+1, len(s))]})
			i = j + 1
		case c == '|':
			j := i + 1
			for j < len(s) && s[j] != '|' {
				j++
			}
			cur = append(cur, &sx{atom: s[i:min(j+1, len(s))]})
			i = j + 1
		default:
			j := i
			for j < len(s) && !strings.ContainsRune("() \n\t\r", rune(s[j])) {
				j++
			}
			cur = append(cur, &sx{atom: s[i:j]})
			i = j
		}
	}
	return cur
}

func (n *sx) String() string {
	if n.list == nil {
		return n.atom
	}
	var ps []string
	for _, c := range n.list {
		ps = append(ps, c.String())
	}
	return "(" + strings.Join(ps, " ") + ")"
}

// smtInt decodes an integer or bit-vector model value; signed tells how to read a bit-vector.
func smtInt(n *sx, signed bool) (*big.Int, bool) {
	if n.list == nil {
		a := n.atom
		switch {
		case strings.HasPrefix(a, "#x"):
			v, ok := new(big.Int).SetString(a[2:], 16)
			if ok && signed {
				w := uint(len(a)-2) * 4
				if v.Bit(int(w-1)) == 1 {
					v.Sub(v, new(big.Int).Lsh(big.NewInt(1), w))
				}
			}
			return v, ok
		case strings.HasPrefix(a, "#b"):
			v, ok := new(big.Int).SetString(a[2:], 2)
			if ok && signed {
				w := uint(len(a) - 2)
				if v.Bit(int(w-1)) == 1 {
					v.Sub(v, new(big.Int).Lsh(big.NewInt(1), w))
				}
			}
			return v, ok
		}
		v, ok := new(big.Int).SetString(a, 10)
		return v, ok
	}
	if len(n.list) == 2 && n.list[0].atom == "-" {
		v, ok := smtInt(n.list[1], signed)
		if ok {
			return new(big.Int).Neg(v), true
		}
	}
	if len(n.list) == 3 && n.list[0].atom == "_" && strings.HasPrefix(n.list[1].atom, "bv") {
		v, ok := new(big.Int).SetString(n.list[1].atom[2:], 10)
		if ok && signed {
			var w uint
			fmt.Sscanf(n.list[2].atom, "%d", &w)
			if w > 0 && v.Bit(int(w-1)) == 1 {
				v.Sub(v, new(big.Int).Lsh(big.NewInt(1), w))
			}
		}
		return v, ok
	}
	return nil, false
}

type replayer struct {
	e       *Engine
	q       *Query
	terms   []string          // terms to evaluate
	values  map[string]*sx    // term text -> model value
	imports map[string]string // package name -> path
	why     string
}

func (rp *replayer) want(t T) { rp.terms = append(rp.terms, t.S) }

func (rp *replayer) qual(p *types.Package) string {
	if p == rp.e.pkg.Pkg {
		return ""
	}
	rp.imports[p.Name()] = p.Path()
	return p.Name()
}

func (rp *replayer) typeStr(t types.Type) string { return types.TypeString(t, rp.qual) }

func isIntType(t types.Type) (signed bool, ok bool) {
	b, isB := t.Underlying().(*types.Basic)
	if !isB || b.Info()&types.IsInteger == 0 {
		return false, false
	}
	return b.Info()&types.IsUnsigned == 0, true
}

func isBoolType(t types.Type) bool {
	b, ok := t.Underlying().(*types.Basic)
	return ok && b.Info()&types.IsBoolean != 0
}

// collect registers the terms whose model values are needed to build v as a Go expression.
func (rp *replayer) collect(v Val, t types.Type) bool {
	switch x := v.(type) {
	case T:
		if _, ok := isIntType(t); ok || isBoolType(t) {
			rp.want(x)
			return true
		}
		switch t.Underlying().(type) {
		case *types.Signature:
			rp.want(Eq(x, NilOf(x.So)))
			return true
		case *types.Interface, *types.Pointer, *types.Map, *types.Chan:
			rp.want(Eq(x, NilOf(x.So)))
			return true
		}
	case *SliceV:
		st, ok := t.Underlying().(*types.Slice)
		if !ok {
			break
		}
		if _, ok := isIntType(st.Elem()); !ok && !isBoolType(st.Elem()) {
			break
		}
		rp.want(x.Len)
		rp.want(x.Nil)
		for i := 0; i < replaySliceCap; i++ {
			rp.want(x.at(IntLit(int64(i))))
		}
		return true
	case *Closure:
		return true
	}
	rp.why = fmt.Sprintf("a value of type %s is outside the harness generator's reach", t.String())
	return false
}

func (rp *replayer) intLit(n *sx, t types.Type) (string, bool) {
	signed, _ := isIntType(t)
	v, ok := smtInt(n, signed)
	if !ok {
		return "", false
	}
	b := t.Underlying().(*types.Basic)
	bits := map[types.BasicKind]uint{types.Int8: 8, types.Uint8: 8, types.Int16: 16, types.Uint16: 16, types.Int32: 32, types.Uint32: 32}[b.Kind()]
	if bits == 0 {
		bits = 64
	}
	lo, hi := new(big.Int), new(big.Int)
	if signed {
		lo.Neg(new(big.Int).Lsh(big.NewInt(1), bits-1))
		hi.Sub(new(big.Int).Lsh(big.NewInt(1), bits-1), big.NewInt(1))
	} else {
		hi.Sub(new(big.Int).Lsh(big.NewInt(1), bits), big.NewInt(1))
	}
	if v.Cmp(lo) < 0 || v.Cmp(hi) > 0 {
		rp.why = fmt.Sprintf("model value %s does not fit %s (integers are mathematical in this encoding)", v.String(), t.String())
		return "", false
	}
	return fmt.Sprintf("%s(%s)", rp.typeStr(t), v.String()), true
}

// goExpr renders the model value of v as a Go expression of type t.
func (rp *replayer) goExpr(v Val, t types.Type) (string, bool) {
	switch x := v.(type) {
	case T:
		if _, ok := isIntType(t); ok {
			n := rp.values[x.S]
			if n == nil {
				return "", false
			}
			return rp.intLit(n, t)
		}
		if isBoolType(t) {
			n := rp.values[x.S]
			if n == nil {
				return "", false
			}
			return fmt.Sprintf("%s(%s)", rp.typeStr(t), n.atom), true
		}
		n := rp.values[Eq(x, NilOf(x.So)).S]
		if n == nil {
			return "", false
		}
		isNil := n.atom == "true"
		switch u := t.Underlying().(type) {
		case *types.Signature:
			if isNil {
				return fmt.Sprintf("(%s)(nil)", rp.typeStr(t)), true
			}
			return rp.stubFunc(u), true
		default:
			if isNil {
				return fmt.Sprintf("(%s)(nil)", rp.typeStr(t)), true
			}
			rp.why = fmt.Sprintf("the model needs a non-nil %s, which the harness generator cannot build", t.String())
			return "", false
		}
	case *SliceV:
		st := t.Underlying().(*types.Slice)
		ln := rp.values[x.Len.S]
		isNil := rp.values[x.Nil.S]
		if ln == nil || isNil == nil {
			return "", false
		}
		n, ok := smtInt(ln, true)
		if !ok || n.Sign() < 0 || n.Cmp(big.NewInt(replaySliceCap)) > 0 {
			rp.why = "model slice longer than the replay cap"
			return "", false
		}
		if isNil.atom == "true" {
			return fmt.Sprintf("(%s)(nil)", rp.typeStr(t)), true
		}
		var els []string
		for i := 0; i < int(n.Int64()); i++ {
			ev := rp.values[x.at(IntLit(int64(i))).S]
			if ev == nil {
				return "", false
			}
			var s string
			if isBoolType(st.Elem()) {
				s = ev.atom
			} else if s, ok = rp.intLit(ev, st.Elem()); !ok {
				return "", false
			}
			els = append(els, s)
		}
		return fmt.Sprintf("%s{%s}", rp.typeStr(t), strings.Join(els, ", ")), true
	case *Closure:
		if sig, ok := t.Underlying().(*types.Signature); ok {
			return rp.stubFunc(sig), true
		}
	}
	return "", false
}

// stubFunc: a function literal that ignores its arguments and returns zero values.
func (rp *replayer) stubFunc(sig *types.Signature) string {
	var ps, rs []string
	for i := 0; i < sig.Params().Len(); i++ {
		ty := rp.typeStr(sig.Params().At(i).Type())
		if sig.Variadic() && i == sig.Params().Len()-1 {
			ty = "..." + rp.typeStr(sig.Params().At(i).Type().(*types.Slice).Elem())
		}
		ps = append(ps, fmt.Sprintf("_ %s", ty))
	}
	for i := 0; i < sig.Results().Len(); i++ {
		rs = append(rs, fmt.Sprintf("r%d %s", i, rp.typeStr(sig.Results().At(i).Type())))
	}
	return fmt.Sprintf("func(%s) (%s) { return }", strings.Join(ps, ", "), strings.Join(rs, ", "))
}

// predicted renders the model's value of a result the way the harness prints the real one (%v).
func (rp *replayer) predicted(v Val, t types.Type) (string, bool) {
	switch x := v.(type) {
	case T:
		n := rp.values[x.S]
		if n == nil {
			return "", false
		}
		if signed, ok := isIntType(t); ok {
			b, ok := smtInt(n, signed)
			if !ok {
				return "", false
			}
			return b.String(), true
		}
		if isBoolType(t) {
			return n.atom, true
		}
	case *SliceV:
		st, ok := t.Underlying().(*types.Slice)
		if !ok {
			return "", false
		}
		ln := rp.values[x.Len.S]
		if ln == nil {
			return "", false
		}
		n, ok := smtInt(ln, true)
		if !ok || n.Sign() < 0 || n.Cmp(big.NewInt(replaySliceCap)) > 0 {
			return "", false
		}
		var els []string
		for i := 0; i < int(n.Int64()); i++ {
			ev := rp.values[x.at(IntLit(int64(i))).S]
			if ev == nil {
				return "", false
			}
			if isBoolType(st.Elem()) {
				els = append(els, ev.atom)
			} else {
				signed, _ := isIntType(st.Elem())
				b, ok := smtInt(ev, signed)
				if !ok {
					return "", false
				}
				els = append(els, b.String())
			}
		}
		return "[" + strings.Join(els, " ") + "]", true
	}
	return "", false
}

var clauseGhostRe = regexp.MustCompile(`\b(old|calls|lastarg|lastres|spawned|sent|recvd|closed|held\w*|cancelled|lasterr|icalls|ilast|atomics|apre|apost|aop|log|inv|has)\(`)

// tryReplay replays the first model of a failed obligation; it returns (confirmed, report).
func tryReplay(e *Engine, o *Obligation) (bool, string) {
	if os.Getenv("GOBV_NO_REPLAY") != "" {
		return false, ""
	}
	var v *Verdict
	for i := range o.Verdicts {
		if o.Verdicts[i].Result == "sat" && o.Verdicts[i].Q != nil && !o.Verdicts[i].Q.Cover && o.Verdicts[i].Q.Text != "" {
			v = &o.Verdicts[i]
			break
		}
	}
	if v == nil {
		return false, ""
	}
	info := e.replayInfo[o.Func]
	if info == nil {
		return false, ""
	}
	rp := &replayer{e: e, q: v.Q, values: map[string]*sx{}, imports: map[string]string{}}
	ok, out := rp.run(info, o)
	if rp.why != "" && out == "" {
		out = "not replayed: " + rp.why
	}
	return ok, out
}

func (rp *replayer) run(info *ReplayInfo, o *Obligation) (bool, string) {
	e := rp.e
	fn := info.Fn
	isMethod := fn.Signature.Recv() != nil
	if isMethod && !strings.Contains(o.Name, "/panics:") {
		rp.why = "methods are replayed only for `panics` clauses (a zero-value receiver is enough to observe a missing panic; other clauses would need the receiver state of the model)"
		return false, ""
	}
	if fn.TypeParams().Len() > 0 || (fn.Parent() != nil && fn.Parent().TypeParams().Len() > 0) {
		rp.why = "generic functions are not replayed"
		return false, ""
	}
	kind := "ensures"
	switch {
	case strings.Contains(o.Name, "/panics:"):
		kind = "mustpanic"
	case strings.Contains(o.Name, "/nopanic:") || strings.Contains(o.Name, "/safe:"):
		kind = "panic"
	case strings.Contains(o.Name, "/ensures:") && rp.q.Exit != nil && !rp.q.Exit.Panic:
	default:
		rp.why = "only ensures, nopanic and safety obligations are replayed"
		return false, ""
	}
	closed := !clauseGhostRe.MatchString(rp.q.Goal)
	for _, p := range append(append([]ReplayVar{}, info.Params...), info.Free...) {
		if !rp.collect(p.V, p.Typ) {
			return false, ""
		}
	}
	var resT []types.Type
	if kind == "ensures" {
		for i, rv := range rp.q.Exit.Results {
			rt := fn.Signature.Results().At(i).Type()
			resT = append(resT, rt)
			switch x := rv.(type) {
			case T:
				if _, ok := isIntType(rt); ok || isBoolType(rt) {
					rp.want(x)
				}
			case *SliceV:
				rp.want(x.Len)
				for i := 0; i < replaySliceCap; i++ {
					rp.want(x.at(IntLit(int64(i))))
				}
			}
		}
	}
	if !rp.getValues(info) {
		return false, ""
	}
	// the call
	var args []string
	params := info.Params
	recvExpr := ""
	if isMethod {
		rt := fn.Signature.Recv().Type()
		pt, isPtr := rt.(*types.Pointer)
		if !isPtr {
			rp.why = "value receivers are not replayed"
			return false, ""
		}
		named, ok := pt.Elem().(*types.Named)
		if !ok || named.TypeParams().Len() > 0 || named.Obj().Pkg() != e.pkg.Pkg {
			rp.why = "receiver type outside the harness generator's reach"
			return false, ""
		}
		rv, _ := params[0].V.(T)
		n := rp.values[Eq(rv, NilOf(rv.So)).S]
		if n != nil && n.atom == "true" {
			recvExpr = fmt.Sprintf("(*%s)(nil)", named.Obj().Name())
		} else {
			recvExpr = fmt.Sprintf("new(%s)", named.Obj().Name())
		}
		params = params[1:]
	}
	for _, p := range params {
		s, ok := rp.goExpr(p.V, p.Typ)
		if !ok {
			if rp.why == "" {
				rp.why = "no model value for parameter " + p.Name
			}
			return false, ""
		}
		args = append(args, s)
	}
	callee := fn.Name()
	if isMethod {
		callee = recvExpr + "." + fn.Name()
	}
	setup := ""
	if par := fn.Parent(); par != nil {
		if par.Parent() != nil || par.Signature.Recv() != nil {
			rp.why = "closure of a method or of another closure"
			return false, ""
		}
		free := map[string]ReplayVar{}
		for _, f := range info.Free {
			free[f.Name] = f
		}
		var pargs []string
		used := 0
		for _, pp := range par.Params {
			if f, ok := free[pp.Name()]; ok {
				s, ok := rp.goExpr(f.V, f.Typ)
				if !ok {
					if rp.why == "" {
						rp.why = "no model value for captured variable " + f.Name
					}
					return false, ""
				}
				pargs = append(pargs, s)
				used++
			} else {
				pargs = append(pargs, fmt.Sprintf("*new(%s)", rp.typeStr(pp.Type())))
			}
		}
		if used != len(info.Free) || par.Signature.Results().Len() != 1 {
			rp.why = "the closure captures more than parameters of its factory function"
			return false, ""
		}
		if _, ok := par.Signature.Results().At(0).Type().Underlying().(*types.Signature); !ok {
			rp.why = "the factory does not return the closure"
			return false, ""
		}
		setup = fmt.Sprintf("\tf := %s(%s)\n", par.Name(), strings.Join(pargs, ", "))
		callee = "f"
	}
	var lhs []string
	for i := 0; i < fn.Signature.Results().Len(); i++ {
		lhs = append(lhs, fmt.Sprintf("r%d", i))
	}
	call := fmt.Sprintf("%s(%s)", callee, strings.Join(args, ", "))
	if fn.Signature.Variadic() {
		call = fmt.Sprintf("%s(%s...)", callee, strings.Join(args, ", "))
	}
	stmt := "\t" + call + "\n\tfmt.Printf(\"GOBV-REPLAY return: []\\n\")\n"
	if len(lhs) > 0 {
		var fmts []string
		for range lhs {
			fmts = append(fmts, "%v")
		}
		stmt = fmt.Sprintf("\t%s := %s\n\tfmt.Printf(\"GOBV-REPLAY return: %s\\n\", %s)\n", strings.Join(lhs, ", "), call, strings.Join(fmts, " | "), strings.Join(lhs, ", "))
	}
	var imps []string
	for name, path := range rp.imports {
		if name != "fmt" && name != "testing" {
			imps = append(imps, fmt.Sprintf("\t%s %q\n", name, path))
		}
	}
	src := fmt.Sprintf("package %s\n\nimport (\n\t\"fmt\"\n\t\"testing\"\n%s)\n\n// generated by gobv from the model of %s (%s)\nfunc TestZZGobvReplay(t *testing.T) {\n\tdefer func() {\n\t\tif p := recover(); p != nil {\n\t\t\tfmt.Printf(\"GOBV-REPLAY panic: %%v\\n\", p)\n\t\t}\n\t}()\n%s%s}\n",
		e.pkg.Pkg.Name(), strings.Join(imps, ""), o.Name, rp.q.Sub, setup, stmt)
	outcome, raw := runOverlayTest(e.repoDir, src)
	var want string
	if kind == "panic" {
		want = "panic"
	} else if kind == "mustpanic" {
		want = "a panic is required by the clause; the model (and, if confirmed, the real code) returns normally"
	} else {
		var ps []string
		for i, rv := range rp.q.Exit.Results {
			s, ok := rp.predicted(rv, resT[i])
			if !ok {
				s = "?"
			}
			ps = append(ps, s)
		}
		want = "return: " + strings.Join(ps, " | ")
		if len(ps) == 0 {
			want = "return: []"
		}
	}
	report := fmt.Sprintf("harness:\n%s\npredicted by the model: %s\nreal code: %s\n", src, want, outcome)
	confirmed := false
	switch {
	case kind == "panic" && strings.HasPrefix(outcome, "panic:"):
		confirmed = true
	case kind == "mustpanic" && (strings.HasPrefix(outcome, "return") || strings.HasPrefix(outcome, "blocked")) && closed:
		confirmed = true
	case kind == "ensures" && outcome == want && closed && !strings.Contains(want, "?"):
		confirmed = true
	}
	if confirmed {
		report += "CONFIRMED: the real code produces the outcome the model predicts; the clause speaks about parameters and results only, so this input violates it\n"
	} else {
		report += "NOT CONFIRMED (the real outcome differs from the model's, or the clause mentions ghost state the harness cannot observe)\n"
		if outcome == "" {
			report += raw
		}
	}
	return confirmed, report
}

// getValues asks the solver for the model values of the collected terms (slice lengths capped).
func (rp *replayer) getValues(info *ReplayInfo) bool {
	text := strings.Replace(rp.q.Text, "(get-model)\n", "", -1)
	idx := strings.LastIndex(text, "(check-sat)")
	if idx < 0 {
		return false
	}
	var b strings.Builder
	b.WriteString(text[:idx])
	for _, p := range append(append([]ReplayVar{}, info.Params...), info.Free...) {
		if s, ok := p.V.(*SliceV); ok {
			fmt.Fprintf(&b, "(assert (<= %s %d))\n", s.Len.S, replaySliceCap)
		}
	}
	b.WriteString("(check-sat)\n")
	seen := map[string]bool{}
	var terms []string
	for _, t := range rp.terms {
		if !seen[t] {
			seen[t] = true
			terms = append(terms, t)
		}
	}
	for _, t := range terms {
		fmt.Fprintf(&b, "(get-value (%s))\n", t)
	}
	dir, err := os.MkdirTemp("", "gobv-replay-")
	if err != nil {
		return false
	}
	defer os.RemoveAll(dir)
	f := filepath.Join(dir, "q.smt2")
	os.WriteFile(f, []byte(b.String()), 0o644)
	ctx, cancel := context.WithTimeout(context.Background(), 20*time.Second)
	defer cancel()
	out, _ := exec.CommandContext(ctx, "z3-new", "-T:15", f).Output()
	lines := strings.SplitN(string(out), "\n", 2)
	if len(lines) < 2 || strings.TrimSpace(lines[0]) != "sat" {
		rp.why = "no model with slices of at most " + fmt.Sprint(replaySliceCap) + " elements (" + strings.TrimSpace(lines[0]) + ")"
		return false
	}
	forms := parseSx(lines[1])
	for i, fm := range forms {
		if i >= len(terms) || len(fm.list) != 1 || len(fm.list[0].list) != 2 {
			continue
		}
		rp.values[terms[i]] = fm.list[0].list[1]
	}
	return true
}

// runOverlayTest injects src as an in-package test through -overlay and returns the GOBV-REPLAY line.
func runOverlayTest(repo, src string) (string, string) {
	dir, err := os.MkdirTemp("", "gobv-replay-")
	if err != nil {
		return "", err.Error()
	}
	defer os.RemoveAll(dir)
	tf := filepath.Join(dir, "zz_gobv_replay_test.go")
	os.WriteFile(tf, []byte(src), 0o644)
	abs, _ := filepath.Abs(repo)
	ov, _ := json.Marshal(map[string]interface{}{"Replace": map[string]string{filepath.Join(abs, "zz_gobv_replay_test.go"): tf}})
	of := filepath.Join(dir, "overlay.json")
	os.WriteFile(of, ov, 0o644)
	ctx, cancel := context.WithTimeout(context.Background(), 180*time.Second)
	defer cancel()
	cmd := exec.CommandContext(ctx, "sh", "-c", "ulimit -v 16000000; exec go test -overlay "+of+" -vet=off -v -count=1 -timeout 20s -run '^TestZZGobvReplay$' .")
	cmd.Dir = abs
	cmd.Env = append(os.Environ(), "GOFLAGS=-mod=mod", "GOPROXY=off", "GOSUMDB=off", "GOTOOLCHAIN=local")
	var buf bytes.Buffer
	cmd.Stdout = &buf
	cmd.Stderr = &buf
	cmd.Run()
	raw := buf.String()
	for _, l := range strings.Split(raw, "\n") {
		if strings.HasPrefix(l, "GOBV-REPLAY ") {
			return strings.TrimPrefix(l, "GOBV-REPLAY "), raw
		}
	}
	if strings.Contains(raw, "panic: test timed out") {
		return "blocked: the call neither returned nor panicked within 20s", truncate(raw, 4000)
	}
	return "", truncate(raw, 4000)
}
