package main

import (
	"flag"
	"fmt"
	"go/types"
	"os"
	"sort"
	"strings"
	"time"

	"golang.org/x/tools/go/packages"
	"golang.org/x/tools/go/ssa"
	"golang.org/x/tools/go/ssa/ssautil"
)

const (
	repoDir       = "/repo"
	contractsFile = "/repo/zz_contracts_verif.go"
)

// verifDir holds the baseline and the known findings. GOBV_VERIF_DIR points the self-test tooling (mutation analysis on a
// frozen snapshot) at a copy; the registered commands never set it.
var verifDir = func() string {
	if d := os.Getenv("GOBV_VERIF_DIR"); d != "" {
		return d
	}
	return "/verif"
}()

func setOfflineEnv() {
	os.Setenv("GOFLAGS", "-mod=mod")
	os.Setenv("GOPROXY", "off")
	os.Setenv("GOSUMDB", "off")
	os.Setenv("GOTOOLCHAIN", "local")
}

// noRenames: the baseline command records the current names; every other command reads the contracts modulo
// pure renames since the baseline (rename.go).
var noRenames bool

func loadEngine(dir string) (*Engine, error) {
	setOfflineEnv()
	cfg := &packages.Config{Mode: packages.LoadAllSyntax, Dir: dir} // the production build (verif tag off): hooks are no-ops, the contracts file is read as text
	pkgs, err := packages.Load(cfg, ".")
	if err != nil {
		return nil, err
	}
	if len(pkgs) != 1 {
		return nil, fmt.Errorf("expected one package, got %d", len(pkgs))
	}
	if len(pkgs[0].Errors) > 0 {
		return nil, fmt.Errorf("package does not type-check: %v", pkgs[0].Errors[0])
	}
	prog, spkgs := ssautil.AllPackages(pkgs, ssa.NaiveForm)
	prog.Build()
	e := &Engine{prog: prog, pkg: spkgs[0], repoDir: dir, replayInfo: map[string]*ReplayInfo{}}
	e.funcs = map[string]*ssa.Function{}
	e.fnName = map[*ssa.Function]string{}
	e.globalFuncs = map[string]*ssa.Function{}
	e.ifaceBind = map[string]string{}
	e.initFuncs = map[string]bool{}
	e.bvFiles = map[string]bool{}
	e.specDefs = map[string]*SpecDef{}
	e.ghostFns = map[string]*GhostFn{}
	if !noRenames {
		if b, err := loadBaseline(); err == nil {
			e.baseClosures = b.Closures
		}
	}
	e.collectFunctions()
	e.capturedNames = map[string]bool{}
	e.spawningFns = map[string]bool{}
	for fn, name := range e.fnName {
		for _, b := range fn.Blocks {
			for _, in := range b.Instrs {
				if _, ok := in.(*ssa.Go); ok {
					e.spawningFns[name] = true
				}
				if ci, ok := in.(ssa.CallInstruction); ok {
					if sc := ci.Common().StaticCallee(); sc != nil && (sc.String() == "context.AfterFunc" || sc.String() == "time.AfterFunc") {
						e.spawningFns[name] = true
					}
				}
				if mc, ok := in.(*ssa.MakeClosure); ok {
					for _, bd := range mc.Bindings {
						if al, ok := bd.(*ssa.Alloc); ok && al.Comment != "" {
							e.capturedNames[name+"|"+al.Comment] = true
						}
					}
				}
			}
		}
	}
	cs, err := parseContracts(dir + "/zz_contracts_verif.go")
	if err != nil {
		return nil, err
	}
	e.cs = cs
	if !noRenames {
		if b, err := loadBaseline(); err == nil && len(b.Symbols) > 0 {
			e.applyRenames(b.Symbols)
		}
	}
	e.indexContracts()
	e.reset()
	return e, nil
}

func (e *Engine) addFunc(fn *ssa.Function, name string) {
	if fn == nil {
		return
	}
	if _, dup := e.fnName[fn]; dup {
		return
	}
	e.funcs[name] = fn
	e.fnName[fn] = name
	var aligned []string
	if base := e.baseClosures[name]; len(base) > 0 {
		var cur []string
		for _, af := range fn.AnonFuncs {
			cur = append(cur, closureKey(af))
		}
		if al, changed := alignClosures(base, cur); changed {
			aligned = al
			e.renameNotes = append(e.renameNotes, fmt.Sprintf("%s: function literals were inserted or removed since the baseline; the remaining ones keep their baseline names (%s)", name, strings.Join(al, " ")))
		}
	}
	for i, af := range fn.AnonFuncs {
		suffix := strings.TrimPrefix(af.Name(), fn.Name())
		if aligned != nil {
			suffix = aligned[i]
		}
		e.addFunc(af, name+suffix)
	}
}

func (e *Engine) collectFunctions() {
	pkg := e.pkg
	var names []string
	for n := range pkg.Members {
		names = append(names, n)
	}
	sort.Strings(names)
	for _, n := range names {
		switch m := pkg.Members[n].(type) {
		case *ssa.Function:
			e.addFunc(m, m.Name())
		case *ssa.Type:
			named, ok := m.Type().(*types.Named)
			if !ok {
				continue
			}
			for i := 0; i < named.NumMethods(); i++ {
				meth := named.Method(i)
				fn := e.prog.FuncValue(meth)
				if fn == nil {
					continue
				}
				recv := meth.Type().(*types.Signature).Recv().Type()
				rn := named.Obj().Name()
				if _, isPtr := recv.(*types.Pointer); isPtr {
					e.addFunc(fn, fmt.Sprintf("(*%s).%s", rn, meth.Name()))
				} else {
					e.addFunc(fn, fmt.Sprintf("(%s).%s", rn, meth.Name()))
				}
			}
		}
	}
	// function literals assigned to package variables in init
	if init := pkg.Func("init"); init != nil {
		for _, b := range init.Blocks {
			for _, in := range b.Instrs {
				if s, ok := in.(*ssa.Store); ok {
					if g, ok := s.Addr.(*ssa.Global); ok {
						var fn *ssa.Function
						switch v := s.Val.(type) {
						case *ssa.Function:
							fn = v
						case *ssa.MakeClosure:
							fn, _ = v.Fn.(*ssa.Function)
						}
						if fn != nil {
							e.globalFuncs[g.Name()] = fn
							delete(e.funcs, e.fnName[fn])
							delete(e.fnName, fn)
							e.addFunc(fn, "var:"+g.Name())
						}
					}
				}
			}
		}
	}
}

func (e *Engine) indexContracts() {
	for _, b := range e.cs.Blocks {
		switch b.Kind {
		case "config":
			for _, cl := range b.All("bvfile") {
				for _, w := range cl.Words {
					e.bvFiles[w] = true
				}
			}
		case "lockorder":
			for _, w := range strings.Fields(b.Name) {
				if w != "<" {
					e.lockOrder = append(e.lockOrder, w)
				}
			}
		case "type":
			for _, cl := range b.Clauses {
				switch cl.Kind {
				case "def":
					// def name(p1, p2) = body
					head := strings.Join(cl.Words, " ")
					txt := head
					if cl.Expr != "" {
						txt = head + " : " + cl.Expr
					}
					i := strings.Index(txt, "=")
					if i < 0 {
						continue
					}
					sig := strings.TrimSpace(txt[:i])
					body := strings.TrimSpace(txt[i+1:])
					lp := strings.Index(sig, "(")
					d := &SpecDef{Name: strings.TrimSpace(sig[:lp]), Body: body}
					for _, p := range strings.Split(strings.TrimSuffix(sig[lp+1:], ")"), ",") {
						if p = strings.TrimSpace(p); p != "" {
							d.Params = append(d.Params, p)
						}
					}
					e.specDefs[d.Name] = d
				case "ghostfn":
					// ghostfn name(sort, sort) sort [rigid]
					txt := strings.Join(cl.Words, " ")
					lp := strings.Index(txt, "(")
					rp := strings.Index(txt, ")")
					if lp < 0 || rp < 0 {
						continue
					}
					g := &GhostFn{Name: strings.TrimSpace(txt[:lp])}
					for _, a := range strings.Split(txt[lp+1:rp], ",") {
						if a = strings.TrimSpace(a); a != "" {
							g.Args = append(g.Args, a)
						}
					}
					rest := strings.Fields(txt[rp+1:])
					if len(rest) > 0 {
						g.Res = rest[0]
					}
					for _, w := range rest[1:] {
						if w == "rigid" {
							g.Rigid = true
						}
					}
					e.ghostFns[g.Name] = g
				case "bind":
					// bind (producer).getAsync = (*Buffer).getAsync
					parts := strings.SplitN(strings.Join(cl.Words, " "), "=", 2)
					if len(parts) == 2 {
						e.ifaceBind[strings.TrimSpace(parts[0])] = strings.TrimSpace(parts[1])
					}
				}
			}
		case "func":
			if b.First("init") != nil {
				e.initFuncs[b.Name] = true
			}
		}
	}
}

func main() {
	if len(os.Args) < 2 {
		fmt.Fprintln(os.Stderr, "usage: gobv <check|verify|list|baseline|replay> ...")
		os.Exit(2)
	}
	detectSolvers()
	switch os.Args[1] {
	case "list":
		e, err := loadEngine(repoDir)
		if err != nil {
			fmt.Fprintln(os.Stderr, err)
			os.Exit(2)
		}
		var names []string
		for n := range e.funcs {
			names = append(names, n)
		}
		sort.Strings(names)
		for _, n := range names {
			c := ""
			if e.cs.Funcs[n] != nil {
				c = " [contract]"
			}
			fmt.Printf("%s%s\n", n, c)
		}
	case "sites":
		// developer helper: list the call-site names (callee#n) of a function with their source positions
		e, err := loadEngine(repoDir)
		if err != nil {
			fmt.Fprintln(os.Stderr, err)
			os.Exit(2)
		}
		for _, name := range os.Args[2:] {
			fn := e.funcs[name]
			if fn == nil {
				continue
			}
			for _, b := range fn.Blocks {
				for _, in := range b.Instrs {
					if ci, ok := in.(ssa.CallInstruction); ok {
						cn := strings.ReplaceAll(e.calleeName(ci.Common()), "github.com/joeycumines/go-bigbuff.", "")
						fmt.Printf("%s: %s#%d  %s\n", name, cn, e.callOrdinal(fn, in, e.calleeName(ci.Common())), e.posOf(in))
					}
				}
			}
		}
	case "verify":
		cmdVerify(os.Args[2:])
	case "check":
		os.Exit(cmdCheck(os.Args[2:]))
	case "baseline":
		os.Exit(cmdBaseline(os.Args[2:]))
	case "replay":
		os.Exit(cmdReplay(os.Args[2:]))
	default:
		fmt.Fprintln(os.Stderr, "unknown command", os.Args[1])
		os.Exit(2)
	}
}

// cmdVerify: developer command — analyse the named functions and print every query's verdict.
func cmdVerify(args []string) {
	fs := flag.NewFlagSet("verify", flag.ExitOnError)
	trace := fs.Bool("trace", false, "trace instructions")
	to := fs.Int("timeout", 10, "solver timeout (s)")
	keep := fs.String("keep", "", "keep SMT files in this directory")
	dir := fs.String("repo", repoDir, "repository directory")
	verbose := fs.Bool("v", false, "print discharged obligations too")
	replay := fs.Bool("replay", false, "replay the model of failed obligations against the real code")
	fs.Parse(args)
	e, err := loadEngine(*dir)
	if err != nil {
		fmt.Fprintln(os.Stderr, err)
		os.Exit(2)
	}
	e.trace = *trace
	tmp := *keep
	if tmp == "" {
		tmp, _ = os.MkdirTemp("", "gobv")
		defer os.RemoveAll(tmp)
	} else {
		os.MkdirAll(tmp, 0o755)
	}
	for _, name := range fs.Args() {
		fn := e.funcs[name]
		if fn == nil {
			fmt.Printf("no such function %q\n", name)
			continue
		}
		t0 := time.Now()
		rep := e.analyse(fn, e.cs.Funcs[name])
		fmt.Printf("== %s: %d paths, %d exits, %d panic exits, %d queries, %d errors (%.2fs)\n", name, rep.Paths, rep.Exits, rep.Panics, len(rep.Queries), len(rep.Errors), time.Since(t0).Seconds())
		for _, er := range rep.Errors {
			fmt.Println("   ERROR:", er)
		}
		for _, n := range rep.Notes {
			fmt.Println("   note:", n)
		}
		res := discharge(tmp, rep.Queries, time.Duration(*to)*time.Second)
		obs := groupObligations(res)
		var names []string
		for n := range obs {
			names = append(names, n)
		}
		sort.Strings(names)
		for _, n := range names {
			o := obs[n]
			if o.OK && !*verbose {
				continue
			}
			status := "ok"
			if !o.OK {
				status = "FAIL"
			}
			fmt.Printf("   %-4s %s  (%d queries, %.2fs) %s\n", status, n, len(o.Verdicts), o.Secs, o.Backends())
			if !o.OK {
				for _, v := range o.Verdicts {
					if v.Result != "unsat" && !(v.Q.Cover && v.Result == "sat") {
						fmt.Printf("        %s %s: %s  goal: %s  @%s\n", v.Q.Sub, v.Result, v.Backend, truncate(v.Q.Goal, 160), v.Q.Pos)
						if v.Model != "" && *verbose {
							fmt.Println(indent(truncate(v.Model, 3000), "          "))
						}
					}
				}
				if *replay {
					if conf, out := tryReplay(e, o); out != "" {
						fmt.Printf("        replay (confirmed on real code: %v):\n%s\n", conf, indent(out, "          "))
					}
				}
			}
		}
		ok, fail := 0, 0
		for _, o := range obs {
			if o.OK {
				ok++
			} else {
				fail++
			}
		}
		fmt.Printf("   summary: %d obligations discharged, %d failed\n", ok, fail)
	}
}

func indent(s, p string) string {
	return p + strings.ReplaceAll(s, "\n", "\n"+p)
}
