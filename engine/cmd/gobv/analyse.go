package main

import (
	"fmt"
	"go/ast"
	"go/token"
	"go/types"
	"runtime/debug"
	"sort"
	"strings"

	"golang.org/x/tools/go/ssa"
)

// FuncReport is what the analysis of one function produced.
type FuncReport struct {
	Name    string
	Queries []*Query
	Errors  []string
	Notes   []string
	Paths   int
	Exits   int
	Panics  int
	Lib     []string
	Used    []string
}

func (e *Engine) reset() {
	e.decls = nil
	e.declSet = map[string]bool{}
	e.regions = map[string]*RegionMeta{}
	e.queries = nil
	e.notes = nil
	e.assumed = map[string]bool{}
	e.closures = map[string]*Closure{}
	e.methods = map[string]*BoundMethod{}
	e.errors = nil
	e.nested = map[string]*NestedInfo{}
	e.loaded = map[string]*Addr{}
	e.boxedSlices = map[string]*SliceV{}
	e.boxedStructs = map[string]*StructV{}
	e.boxedTypes = map[string]types.Type{}
	e.libUsed = map[string]bool{}
	e.usedContracts = map[string]bool{}
	e.doneOf = map[string]T{}
	e.strConsts = map[string]string{}
	e.cellSeq = 0
	e.makeFuncs = map[string]*Closure{}
	e.sitesHit = map[string]bool{}
	e.loopsHit = map[string]bool{}
	e.entered = map[string]bool{}
}

// analyse verifies one function against its contract block (blk may be nil: safety/lockset sweep only).
func (e *Engine) analyse(fn *ssa.Function, blk *Block) (rep *FuncReport) {
	e.reset()
	name := e.fnName[fn]
	e.curFn = name
	e.bv = false
	e.safeNilOn = true // every field access through a pointer carries a non-nil obligation (safe:nil#n)
	e.exploreAllPanics = false
	if blk != nil {
		if m := blk.First("mode"); m != nil && len(m.Words) > 0 && m.Words[0] == "bv" {
			e.bv = true
		}
		if blk.First("safe-nil") != nil {
			e.safeNilOn = true
		}
		if blk.First("panics") != nil || blk.First("nopanic") != nil || blk.First("explore-panics") != nil {
			e.exploreAllPanics = true
		}
	}
	if e.bvFiles[shortFile(e.prog.Fset.Position(fn.Pos()).Filename)] {
		e.bv = true
	}
	if blk != nil {
		if m := blk.First("mode"); m != nil && len(m.Words) > 0 && m.Words[0] == "int" {
			e.bv = false // a function of a bit-vector file that does no machine arithmetic worth the cost
		}
	}
	rep = &FuncReport{Name: name}
	defer func() {
		if p := recover(); p != nil {
			rep.Errors = append(rep.Errors, fmt.Sprintf("%s: engine panic: %v\n%s", name, p, debug.Stack()))
			rep.Queries = e.queries
		}
	}()
	st := &State{Cells: map[*Cell]Val{}, Heap: map[string]string{}, Escaped: map[string]bool{}, Ghost: map[string]Val{}, Facts: map[string]string{}, Counters: map[string]T{}, Entry: map[string]Val{}, Shared: map[*Cell]string{}}
	fr := &Frame{Fn: fn, Vals: map[ssa.Value]Val{}, Cells: map[string]*Cell{}, LoopSeen: map[int]bool{}}
	ri := &ReplayInfo{Fn: fn}
	e.replayInfo[name] = ri
	for _, p := range fn.Params {
		v := e.freshVal(st, p.Type(), "in_"+p.Name())
		if sv, ok := v.(*SliceV); ok {
			sv.Ext = true // the caller keeps its own reference to this backing array
		}
		fr.Vals[p] = v
		fr.Args = append(fr.Args, v)
		st.Entry[p.Name()] = v
		ri.Params = append(ri.Params, ReplayVar{Name: p.Name(), Typ: p.Type(), V: v})
	}
	// free variables of a closure analysed on its own: symbolic cells / refs
	for _, fv := range fn.FreeVars {
		et := fv.Type().(*types.Pointer).Elem()
		if _, ok := et.Underlying().(*types.Struct); ok && !isOpaqueStruct(et) {
			ref := e.freshConst("fv_"+fv.Name(), SRef)
			ri.Free = append(ri.Free, ReplayVar{Name: fv.Name(), Typ: et, V: ref})
			st.assume(Not(Eq(ref, NilOf(SRef))))
			fr.Binds = append(fr.Binds, ref)
			continue
		}
		c := &Cell{ID: e.nextCell(), Name: fv.Name(), Typ: et}
		st.Cells[c] = e.freshVal(st, et, "fv_"+fv.Name())
		ri.Free = append(ri.Free, ReplayVar{Name: fv.Name(), Typ: et, V: st.Cells[c]})
		st.Entry["fv:"+fv.Name()] = st.Cells[c]
		fr.Cells[fv.Name()] = c
		fr.Binds = append(fr.Binds, &Addr{Kind: ACell, Cell: c, FieldT: et})
	}
	st.Frames = []*Frame{fr}
	// ghost call counters start at zero
	e.regions["cnt.calls"] = &RegionMeta{Name: "cnt.calls", Args: []Sort{SFn}, Res: SInt}
	st.Heap["cnt.calls"] = e.defineFun("H_cnt.calls", []T{{"f!", SFn}}, SInt, IntLit(0))
	e.regions["cnt:go"] = &RegionMeta{Name: "cnt:go", Args: []Sort{SStr}, Res: SInt}
	st.Heap["cnt:go"] = e.defineFun("H_cnt.go", []T{{"f!", SStr}}, SInt, IntLit(0))
	// definitional axioms of spec functions
	for _, ab := range e.cs.Blocks {
		if ab.Kind != "axioms" {
			continue
		}
		for _, cl := range ab.All("axiom") {
			if m := ab.First("mode"); m != nil && len(m.Words) > 0 && (m.Words[0] == "bv") != e.bv {
				continue
			}
			x, err := parseSpec(cl.Expr)
			if err != nil {
				e.fail("%v", err)
				continue
			}
			c := e.specCtx(st, nil)
			st.assume(c.boolTerm(x))
			e.note("axiom %s/%s (definition of a spec function): %s", ab.Name, cl.Label(), cl.Expr)
		}
	}
	// object invariants (frozen, lock-independent facts) of struct-pointer parameters
	for i, p := range fn.Params {
		e.assumeObjInv(st, fr.Args[i], p.Type())
	}
	// spawn contracts: locks handed over to a goroutine body
	if blk != nil {
		for _, cl := range blk.All("holds") {
			e.assumeHolds(st, fr, cl)
		}
		for _, cl := range blk.All("holds-cond") {
			// the caller holds the Locker of this *sync.Cond parameter
			x, err := parseSpec(cl.Expr)
			if err != nil {
				e.fail("%v", err)
				continue
			}
			c := e.clauseCtx(st, fr, nil)
			if cv, ok := c.eval(x).V.(T); ok {
				st.Locks = append(st.Locks, HeldLock{Key: e.condLocker(st, cv), Base: cv, Mode: LockW})
			}
		}
		for _, cl := range blk.All("requires") {
			t := e.evalClause(st, fr, cl, nil)
			st.assume(t)
		}
		if len(blk.All("requires")) > 0 {
			e.emitCover(st, name+"/cover:pre", "preconditions are satisfiable")
		}
	}
	st.OldHeap = copyHeap(st.Heap)
	if blk == nil || blk.First("action") == nil {
		st.OldSet = true
	}
	run := &Run{e: e, fn: fn, blk: blk}
	run.enterBlock(st, fr, fn.Blocks[0])
	run.work = []*State{st}
	run.loop()
	rep.Paths = run.paths
	// exits
	for _, ex := range run.exits {
		if ex.Panic {
			rep.Panics++
		} else {
			rep.Exits++
		}
		e.checkExit(run, ex, blk)
	}
	// call-site clauses whose site does not exist (any more) in a function that was analysed
	e.entered[name] = true
	var entered []string
	for fnm := range e.entered {
		entered = append(entered, fnm)
	}
	sort.Strings(entered)
	for _, fnm := range entered {
		b := e.cs.Funcs[fnm]
		if b == nil {
			continue
		}
		for _, kind := range []string{"at-call", "after-call"} {
			for _, cl := range b.All(kind) {
				if len(cl.Words) < 1 || e.sitesHit[fnm+"|"+cl.Words[0]] {
					continue
				}
				why := "the call site is never reached on any explored path"
				if !strings.Contains(cl.Words[0], ">") && !e.siteExists(e.funcs[fnm], cl.Words[0]) {
					why = "no such call site in the current source"
				}
				e.emitBroken(st, fmt.Sprintf("%s/%s@%s:%s", fnm, kind, cl.Words[0], cl.Label()), cl, why)
			}
		}
	}
	// loop clauses of the analysed function that name a loop no explored path enters (or that does not exist)
	if blk != nil {
		for _, cl := range blk.All("loop") {
			if len(cl.Words) < 2 || e.loopsHit[name+"|"+cl.Words[0]] {
				continue
			}
			e.emitBroken(st, fmt.Sprintf("%s/loop:%s/%s:%s", name, cl.Words[0], cl.Words[1], cl.Label()), cl, "no explored path enters a loop with this ordinal in the current source")
		}
	}
	rep.Queries = e.queries
	rep.Errors = e.errors
	rep.Notes = e.notes
	for k := range e.libUsed {
		rep.Lib = append(rep.Lib, k)
	}
	sort.Strings(rep.Lib)
	for k := range e.usedContracts {
		rep.Used = append(rep.Used, k)
	}
	sort.Strings(rep.Used)
	return rep
}

// assumeObjInv assumes the `objinv` clauses of the type block of *T for a value of type *T.
func (e *Engine) assumeObjInv(st *State, v Val, t types.Type) {
	pt, ok := t.Underlying().(*types.Pointer)
	if !ok {
		return
	}
	if _, ok := pt.Elem().Underlying().(*types.Struct); !ok {
		return
	}
	tb := e.cs.Types[e.structKey(pt.Elem())]
	if tb == nil {
		return
	}
	ref, ok := v.(T)
	if !ok {
		return
	}
	for _, cl := range tb.All("objinv") {
		x, err := parseSpec(cl.Expr)
		if err != nil {
			e.fail("%v", err)
			continue
		}
		c := e.specCtx(st, nil)
		c.vars[tb.Self] = SV{V: ref, T: t}
		st.assume(Implies(Not(Eq(ref, NilOf(SRef))), c.boolTerm(x)))
	}
}

// siteExists: does function fn contain a call site named callee#n.
func (e *Engine) siteExists(fn *ssa.Function, site string) bool {
	if fn == nil {
		return false
	}
	i := strings.LastIndex(site, "#")
	if i < 0 {
		return false
	}
	callee := site[:i]
	var n int
	fmt.Sscan(site[i+1:], &n)
	cnt := 0
	if callee == "recv" {
		for _, b := range fn.Blocks {
			for _, in := range b.Instrs {
				switch x := in.(type) {
				case *ssa.UnOp:
					if x.Op == token.ARROW {
						cnt++
					}
				case *ssa.Select:
					for _, s := range x.States {
						if s.Dir == types.RecvOnly {
							cnt++
							break
						}
					}
				}
			}
		}
		return cnt > n
	}
	if callee == "send" {
		for _, b := range fn.Blocks {
			for _, in := range b.Instrs {
				switch x := in.(type) {
				case *ssa.Send:
					cnt++
				case *ssa.Select:
					for _, s := range x.States {
						if s.Dir == types.SendOnly {
							cnt++
							break
						}
					}
				}
			}
		}
		return cnt > n
	}
	for _, b := range fn.Blocks {
		for _, in := range b.Instrs {
			if ci, ok := in.(ssa.CallInstruction); ok {
				nm := e.calleeName(ci.Common())
				nm = strings.ReplaceAll(nm, "github.com/joeycumines/go-bigbuff.", "")
				if nm == callee {
					cnt++
				}
			}
		}
	}
	return cnt > n
}

func (e *Engine) assumeHolds(st *State, fr *Frame, cl *Clause) {
	// holds <expr> [R]: the body starts with this lock held (handed over by the spawner)
	x, err := parseSpec(cl.Expr)
	if err != nil {
		e.fail("%v", err)
		return
	}
	c := e.clauseCtx(st, fr, nil)
	v := c.eval(x)
	key, ok := v.V.(T)
	if !ok {
		e.fail("holds: not a lock expression")
		return
	}
	r := &Run{e: e}
	lr := r.lockOf(st, key)
	mode := LockW
	if len(cl.Words) > 0 && cl.Words[0] == "R" {
		mode = LockR
	}
	st.Locks = append(st.Locks, HeldLock{Class: lr.Class, Base: lr.Base, Key: lr.Key, Mode: mode})
	if lr.Class != "" {
		r.assumeInvariants(st, lr.Owner, lr.Field, lr.Base)
	}
}

// checkExit emits the postcondition obligations for one exit of the function.
func (e *Engine) checkExit(run *Run, ex *Exit, blk *Block) {
	st := ex.St
	fr := st.Frames[0]
	name := e.fnName[fr.Fn]
	e.curExit = &ExitInfo{Results: ex.Results, Panic: ex.Panic}
	defer func() { e.curExit = nil }()
	if st.OldHeap != nil && !st.OldSet {
		st.OldSet = true // no acquisition on this path: old() is the entry state
	}
	if blk == nil {
		return
	}
	entryCtx := func() *SpecCtx {
		c := e.clauseCtx(st, fr, nil)
		c.fr = nil
		saved := st.Heap
		_ = saved
		return c
	}
	if ex.Panic {
		// callers see a panic of this function only through `panics` / `maypanic`: a reachable panic exit must be declared
		if blk.First("maypanic") == nil && blk.First("inline") == nil && e.calledInPackage(fr.Fn) {
			var conds []T
			for _, cl := range blk.All("panics") {
				x, err := parseSpec(cl.Expr)
				if err != nil {
					continue
				}
				c := entryCtx()
				conds = append(conds, c.withHeap(st.OldHeap, func() SV { return SV{V: c.boolTerm(x)} }).V.(T))
			}
			e.emitWith(st, name+"/panics-declared", "", nil, Or(conds...),
				"a panic of this function (here from "+st.Facts["panic.site"]+") is covered by its panics clauses or a maypanic declaration", st.Facts["panic.site"], []string{"C12"}, nil)
		}
		// nopanic label : Q  -- if Q held at entry the function does not panic
		for _, cl := range blk.All("nopanic") {
			x, err := parseSpec(cl.Expr)
			if err != nil {
				e.fail("%v", err)
				continue
			}
			c := entryCtx()
			q := c.withHeap(st.OldHeap, func() SV { return SV{V: c.boolTerm(x)} }).V.(T)
			e.emitWith(st, fmt.Sprintf("%s/nopanic:%s", name, cl.Label()), "", nil, Not(q),
				"no panic when "+cl.Expr+" (panic from "+st.Facts["panic.site"]+")", st.Facts["panic.site"], cl.Props, cl)
		}
		for _, cl := range blk.All("ensures-panic") {
			vars := map[string]SV{}
			e.bindResults(fr.Fn, vars, nil)
			e.obligationClause(st, fr, fmt.Sprintf("%s/ensures-panic:%s", name, cl.Label()), cl, vars)
		}
		e.checkExitLocks(st, fr, blk, true)
		return
	}
	vars := map[string]SV{}
	e.bindResults(fr.Fn, vars, ex.Results)
	for _, up := range blk.All("update") {
		run.applyUpdateAtExit(st, fr, up, vars)
	}
	for _, cl := range blk.All("panics") {
		x, err := parseSpec(cl.Expr)
		if err != nil {
			e.fail("%v", err)
			continue
		}
		c := entryCtx()
		p := c.withHeap(st.OldHeap, func() SV { return SV{V: c.boolTerm(x)} }).V.(T)
		e.emitWith(st, fmt.Sprintf("%s/panics:%s", name, cl.Label()), "", nil, Not(p),
			"normal return only when not ("+cl.Expr+")", e.framePos(fr), cl.Props, cl)
	}
	for _, cl := range blk.All("ensures") {
		e.obligationClause(st, fr, fmt.Sprintf("%s/ensures:%s", name, cl.Label()), cl, vars)
	}
	// vacuity: some normal exit of the function must be reachable under the assumed contracts
	if len(blk.All("ensures")) > 0 {
		e.emitCover(st, name+"/cover:return", "a normal return is reachable (assumed contracts are not contradictory)")
		// per return site: recorded by the baseline when reachable; a recorded site that later becomes unreachable
		// means that assumptions on the way to it have become contradictory (vacuous proofs)
		if k := returnOrdinal(fr); k >= 0 {
			e.emitCover(st, fmt.Sprintf("%s/cover:site:return#%d", name, k), "this return site is reachable")
		}
	}
	for _, cl := range blk.All("never-locks") {
		// always present; overridden by the aggregate of the per-acquisition obligations when there are any
		e.emitWith(st, fmt.Sprintf("%s/never-locks:%s", name, cl.Label()), "", nil, True, "no acquisition of "+cl.Expr, e.framePos(fr), cl.Props, cl)
	}
	e.checkExitLocks(st, fr, blk, false)
	// functions running under a caller's lock: changes of notify-on-change state must have been broadcast
	if len(blk.All("holds")) > 0 {
		goal := True
		where := ""
		for k, v := range st.Facts {
			if strings.HasPrefix(k, "dirty:") {
				where = k + " at " + v
				// no Broadcast is owed while the condition variable of that lock does not exist yet (lazy
				// initialisation): nobody can be parked on it
				g := False
				if parts := strings.SplitN(strings.TrimPrefix(k, "dirty:"), ":", 2); len(parts) == 2 {
					if ol := strings.SplitN(parts[0], ".", 2); len(ol) == 2 {
						if tb := e.cs.Types[ol[0]]; tb != nil {
							for _, cl := range tb.All("cond") {
								if len(cl.Words) >= 1 && strings.TrimSpace(cl.Expr) == ol[1] {
									cv := e.regionRead(st, fieldRegionName(ol[0], cl.Words[0]), []Sort{SRef}, SRef, T{parts[1], SRef})
									g = Eq(cv, NilOf(SRef))
								}
							}
						}
					}
				}
				goal = And(goal, g)
			}
		}
		e.emitWith(st, name+"/bcast-after-change:return", "", nil, goal, "guarded state changed without a Broadcast before returning to the lock holder: "+where, e.framePos(fr), []string{"C04", "C05"}, nil)
	}
}

// checkExitLocks: unless the contract says otherwise, a function returns with the lockset it started with.
func (e *Engine) checkExitLocks(st *State, fr *Frame, blk *Block, panicExit bool) {
	name := e.fnName[fr.Fn]
	want := 0
	if blk != nil {
		want = len(blk.All("holds")) + len(blk.All("holds-cond")) - len(blk.All("releases"))
		if want < 0 {
			want = 0
		}
		if lt := blk.First("lock-transfer"); lt != nil {
			// `lock-transfer Class…` — locks of the named classes may be held at exit (they were handed to a goroutine
			// this function started); every other lock must have been released. Without a class list nothing is checked.
			allowed := strings.Fields(strings.Join(lt.Words, " ") + " " + lt.Expr)
			if len(allowed) == 0 {
				return
			}
			kind := "return"
			if panicExit {
				kind = "panic"
			}
			spawned := false
			for k := range st.Facts {
				if strings.HasPrefix(k, "spawned:") {
					spawned = true // only a path that started a goroutine can have handed a lock over
				}
			}
			g := True
			for _, l := range st.Locks {
				ok := false
				for _, a := range allowed {
					if l.Class == a && spawned {
						ok = true
					}
				}
				if !ok {
					g = False
				}
			}
			e.emitWith(st, fmt.Sprintf("%s/lock-balance:%s", name, kind), "", nil, g,
				fmt.Sprintf("only transferred locks (%s) are still held on %s (have {%s})", strings.Join(allowed, ", "), kind, locksKey(st.Locks)), e.framePos(fr), []string{"C12"}, nil)
			return
		}
	}
	kind := "return"
	if panicExit {
		kind = "panic"
	}
	g := True
	if len(st.Locks) != want {
		g = False
	}
	e.emitWith(st, fmt.Sprintf("%s/lock-balance:%s", name, kind), "", nil, g,
		fmt.Sprintf("lockset on %s is as declared (have {%s})", kind, locksKey(st.Locks)), e.framePos(fr), []string{"C12"}, nil)
}

func (r *Run) applyUpdateAtExit(st *State, fr *Frame, cl *Clause, vars map[string]SV) {
	e := r.e
	parts := strings.SplitN(cl.Expr, ":=", 2)
	if len(parts) != 2 {
		e.fail("update clause needs `:=`: %s", cl.Expr)
		return
	}
	lhs := strings.TrimSpace(parts[0])
	rhs := strings.TrimSpace(parts[1])
	cond := ""
	if i := strings.LastIndex(rhs, " if "); i >= 0 {
		cond = strings.TrimSpace(rhs[i+4:])
		rhs = strings.TrimSpace(rhs[:i])
	}
	c := e.clauseCtx(st, fr, vars)
	c.inLoop = true
	lx, err := parseSpec(lhs)
	if err != nil {
		e.fail("%v", err)
		return
	}
	rx, err := parseSpec(rhs)
	if err != nil {
		e.fail("%v", err)
		return
	}
	r.assignGhost(st, c, lx, rx, cond)
}

// assignGhost performs `lhs := rhs [if cond]` where lhs is a ghost field selector (x.g) or ghost function application g(args).
func (r *Run) assignGhost(st *State, c *SpecCtx, lx, rx ast.Expr, cond string) {
	e := r.e
	var condT T = True
	if cond != "" {
		cx, err := parseSpec(cond)
		if err != nil {
			e.fail("%v", err)
			return
		}
		condT = c.boolTerm(cx)
	}
	switch l := lx.(type) {
	case *ast.SelectorExpr:
		base := c.eval(l.X)
		bt, ok := base.V.(T)
		if !ok || base.T == nil {
			e.fail("update: bad ghost base")
			return
		}
		key := e.structKey(base.T)
		reg := "ghost." + key + "." + l.Sel.Name
		cur := c.eval(lx).V.(T)
		nv := c.coerceTo(c.eval(rx), cur.So)
		e.regionWrite1(st, reg, cur.So, bt, Ite(condT, nv, cur))
		return
	case *ast.CallExpr:
		if id, ok := l.Fun.(*ast.Ident); ok {
			if g := e.ghostFns[id.Name]; g != nil && !g.Rigid && len(g.Args) == 1 {
				cur := c.eval(lx).V.(T)
				arg := c.coerceTo(c.eval(l.Args[0]), ghostSort(e, g.Args[0]))
				nv := c.coerceTo(c.eval(rx), cur.So)
				e.regionWrite1(st, "ghost."+g.Name, cur.So, arg, Ite(condT, nv, cur))
				return
			}
		}
	}
	e.fail("update: unsupported left-hand side %s", exprString(lx))
}

// onRet / onPanicRet: continuation hooks for specially inlined frames.
func (r *Run) onRet(st *State, parent *Frame, child *Frame, res []Val) {
	switch child.OnRet {
	case "discard":
	default:
		r.e.fail("unknown continuation %s", child.OnRet)
	}
}

func (r *Run) onPanicRet(st *State, parent *Frame, child *Frame) {}

// scanCallEffects: conservative write set of a call inside a loop body (for havocLoop).
func (r *Run) scanCallEffects(f *Frame, fn *ssa.Function, ci ssa.CallInstruction, binds []Val, regions map[string]bool, all *bool,
	addCell func(*Cell), scanFn func(*ssa.Function, []Val)) {
	e := r.e
	cc := ci.Common()
	if cc.IsInvoke() {
		if cc.Method.Name() == "Err" {
			regions["ctxerr.last"] = true
		}
		name := fmt.Sprintf("(%s).%s", typeKey(cc.Value.Type()), cc.Method.Name())
		name = strings.ReplaceAll(name, "github.com/joeycumines/go-bigbuff.", "")
		if blk := e.cs.Funcs[name]; blk != nil {
			r.effectsOfBlock(blk, regions, all)
			return
		}
		if target, ok := e.ifaceBind[name]; ok {
			if blk := e.cs.Funcs[target]; blk != nil {
				r.effectsOfBlock(blk, regions, all)
			} else if tf := e.funcs[target]; tf != nil {
				scanFn(tf, nil)
			}
			return
		}
		regions["ctx.cancelled"] = true
		return
	}
	switch v := cc.Value.(type) {
	case *ssa.Builtin:
		switch v.Name() {
		case "delete":
			regions["map:"+typeKey(cc.Args[0].Type().Underlying())] = true
		case "close":
			regions["chan."] = true
		case "copy":
			*all = *all || false
			// destination origin
			if u, ok := cc.Args[0].(*ssa.Slice); ok {
				if l, ok := u.X.(*ssa.UnOp); ok {
					r.markOrigin(f, fn, l.X, binds, regions, all, addCell)
					return
				}
			}
			if l, ok := cc.Args[0].(*ssa.UnOp); ok {
				r.markOrigin(f, fn, l.X, binds, regions, all, addCell)
				return
			}
			*all = true
		}
		return
	case *ssa.Function:
		r.effectsOfFunction(v, nil, regions, all, scanFn)
		return
	case *ssa.MakeClosure:
		if cf, ok := v.Fn.(*ssa.Function); ok {
			var cb []Val
			if f != nil {
				for _, b := range v.Bindings {
					if val, ok := f.Vals[b]; ok {
						cb = append(cb, val)
					} else {
						cb = append(cb, nil)
					}
				}
			}
			// stores to captured cells
			for i, b := range v.Bindings {
				_ = i
				if al, ok := b.(*ssa.Alloc); ok && f != nil {
					if a, ok := f.Vals[al].(*Addr); ok && a.Kind == ACell {
						if closureWrites(cf, i) {
							addCell(a.Cell)
						}
					}
				}
			}
			r.effectsOfFunction(cf, cb, regions, all, scanFn)
		}
		return
	}
	// dynamic call: closure held in a local? user callback: no package state touched (see unknownCall)
	regions["cnt.calls"] = true
	if f != nil {
		if val, ok := f.Vals[cc.Value]; ok {
			if c, ok := val.(*Closure); ok {
				r.effectsOfFunction(c.Fn, c.Binds, regions, all, scanFn)
				for i, b := range c.Binds {
					if a, ok := b.(*Addr); ok && a.Kind == ACell && closureWrites(c.Fn, i) {
						addCell(a.Cell)
					}
				}
				return
			}
		}
	}
	// unknown callee value (e.g. loaded from a cell holding a closure defined in the enclosing function)
	for _, af := range fn.AnonFuncs {
		r.effectsOfFunction(af, nil, regions, all, scanFn)
	}
	regions["ctx.cancelled"] = true
}

func closureWrites(fn *ssa.Function, freeVarIdx int) bool {
	if freeVarIdx >= len(fn.FreeVars) {
		return false
	}
	fv := fn.FreeVars[freeVarIdx]
	for _, b := range fn.Blocks {
		for _, in := range b.Instrs {
			if s, ok := in.(*ssa.Store); ok && s.Addr == fv {
				return true
			}
			if mc, ok := in.(*ssa.MakeClosure); ok {
				for j, bb := range mc.Bindings {
					if bb == fv {
						if closureWrites(mc.Fn.(*ssa.Function), j) {
							return true
						}
					}
				}
			}
		}
	}
	return false
}

func (r *Run) markOrigin(f *Frame, fn *ssa.Function, v ssa.Value, binds []Val, regions map[string]bool, all *bool, addCell func(*Cell)) {
	e := r.e
	switch o := v.(type) {
	case *ssa.Alloc:
		if f != nil {
			if a, ok := f.Vals[o].(*Addr); ok && a.Kind == ACell {
				addCell(a.Cell)
				return
			}
		}
	case *ssa.FreeVar:
		for i, fv := range fn.FreeVars {
			if fv == o && i < len(binds) {
				if a, ok := binds[i].(*Addr); ok && a.Kind == ACell {
					addCell(a.Cell)
					return
				}
			}
		}
	case *ssa.FieldAddr:
		st := o.X.Type().Underlying().(*types.Pointer).Elem()
		fld := st.Underlying().(*types.Struct).Field(o.Field)
		regions[fieldRegionName(e.structKey(st), fld.Name())] = true
		return
	}
	*all = true
}

func (r *Run) effectsOfBlock(blk *Block, regions map[string]bool, all *bool) {
	e := r.e
	for _, as := range blk.All("assigns") {
		for _, w := range append(append([]string(nil), as.Words...), strings.Fields(as.Expr)...) {
			switch {
			case w == "*":
				*all = true
			case w == "nothing":
			case strings.HasPrefix(w, "region:"):
				regions[strings.TrimPrefix(w, "region:")] = true
			default:
				// field of receiver: region <Owner>.<field>
				owner := ownerOfFuncName(blk.Name)
				regions[owner+"."+w] = true
				regions["ghost."+owner+"."+w] = true
			}
		}
	}
	if act := blk.First("action"); act != nil && len(act.Words) > 0 {
		owner := ownerOfFuncName(blk.Name)
		for _, f := range e.guardedFields(owner, act.Words[0]) {
			regions[owner+"."+f] = true
			regions["ghost."+owner+"."+f] = true
		}
		regions["map:"] = true
	}
	regions["ctx.cancelled"] = true
	regions["chan."] = true
}

func ownerOfFuncName(n string) string {
	// "(*Channel).Commit" -> Channel
	if strings.HasPrefix(n, "(") {
		n = strings.TrimPrefix(n, "(")
		n = strings.TrimPrefix(n, "*")
		if i := strings.Index(n, ")"); i >= 0 {
			return n[:i]
		}
	}
	return ""
}

func (r *Run) effectsOfFunction(fn *ssa.Function, binds []Val, regions map[string]bool, all *bool, scanFn func(*ssa.Function, []Val)) {
	e := r.e
	if fn.Pkg != e.pkg || len(fn.Blocks) == 0 {
		name := fn.String()
		switch {
		case strings.Contains(name, "sync.Mutex") || strings.Contains(name, "sync.RWMutex") || strings.Contains(name, "sync.Cond).Wait"):
			// acquisition havocs guarded state: be coarse
			*all = true
		case strings.HasPrefix(name, "(*sync/atomic."):
			regions["atomic."] = true
		case strings.HasPrefix(name, "(*sync.WaitGroup)"):
			regions["wg.n"] = true
		case strings.HasPrefix(name, "(*sync.Once)"):
			*all = true
		case strings.HasPrefix(name, "context."):
			regions["ctx.cancelled"] = true
		}
		return
	}
	if blk := e.cs.Funcs[e.fnName[fn]]; blk != nil && blk.First("inline") == nil && fn.Parent() == nil {
		r.effectsOfBlock(blk, regions, all)
		return
	}
	scanFn(fn, binds)
}

// calledInPackage: is fn called (or started, deferred, or created as a closure) by library code, so that its
// contract stands in for its body somewhere.
func (e *Engine) calledInPackage(fn *ssa.Function) bool {
	if e.calledFns == nil {
		e.calledFns = map[*ssa.Function]bool{}
		for f := range e.fnName {
			for _, b := range f.Blocks {
				for _, in := range b.Instrs {
					switch x := in.(type) {
					case ssa.CallInstruction:
						if sc := x.Common().StaticCallee(); sc != nil {
							if o := sc.Origin(); o != nil {
								sc = o
							}
							if sc != f {
								e.calledFns[sc] = true
							}
						}
					case *ssa.MakeClosure:
						if c, ok := x.Fn.(*ssa.Function); ok {
							e.calledFns[c] = true
						}
					}
				}
			}
		}
	}
	return e.calledFns[fn]
}

// onlyCalledDirectly: fn has at least one static call site in the package and is never used as a value, started as a
// goroutine, deferred or bound as a method value (those uses have no inlining caller).
func (e *Engine) onlyCalledDirectly(fn *ssa.Function) bool {
	called := false
	for f := range e.fnName {
		for _, b := range f.Blocks {
			for _, in := range b.Instrs {
				var ops []*ssa.Value
				if ci, ok := in.(ssa.CallInstruction); ok {
					sc := ci.Common().StaticCallee()
					if sc != nil {
						if o := sc.Origin(); o != nil {
							sc = o
						}
					}
					if sc == fn {
						if f.Synthetic != "" {
							return false // bound-method / wrapper thunk: the helper is used as a value
						}
						if _, isCall := in.(*ssa.Call); isCall && f != fn {
							called = true
						} else {
							return false // go / defer of the helper
						}
					}
					// as an argument
					for _, a := range ci.Common().Args {
						if af, ok := a.(*ssa.Function); ok && af == fn {
							return false
						}
					}
					continue
				}
				for _, op := range in.Operands(ops) {
					if op == nil || *op == nil {
						continue
					}
					if af, ok := (*op).(*ssa.Function); ok && af == fn {
						return false
					}
				}
			}
		}
	}
	return called
}

// unreferenced: fn is dead code — no instruction of the package calls it or uses it as a value, and (for a method) no
// interface declared in the package has a method of that name through which it could be reached.
func (e *Engine) unreferenced(fn *ssa.Function) bool {
	for f := range e.fnName {
		if f == fn {
			continue
		}
		for _, b := range f.Blocks {
			for _, in := range b.Instrs {
				if ci, ok := in.(ssa.CallInstruction); ok {
					if sc := ci.Common().StaticCallee(); sc != nil {
						if o := sc.Origin(); o != nil {
							sc = o
						}
						if sc == fn {
							return false
						}
					}
				}
				var ops []*ssa.Value
				for _, op := range in.Operands(ops) {
					if op == nil || *op == nil {
						continue
					}
					if af, ok := (*op).(*ssa.Function); ok {
						if o := af.Origin(); o != nil {
							af = o
						}
						if af == fn {
							return false
						}
					}
				}
			}
		}
	}
	if fn.Signature.Recv() != nil {
		scope := e.pkg.Pkg.Scope()
		for _, n := range scope.Names() {
			if tn, ok := scope.Lookup(n).(*types.TypeName); ok {
				if it, ok := tn.Type().Underlying().(*types.Interface); ok {
					for i := 0; i < it.NumMethods(); i++ {
						if it.Method(i).Name() == fn.Name() {
							return false
						}
					}
				}
			}
		}
	}
	return true
}

// returnOrdinal: index (in block order) of the Return instruction the top frame is exiting through.
func returnOrdinal(fr *Frame) int {
	if fr.Block == nil {
		return -1
	}
	k := 0
	for _, b := range fr.Fn.Blocks {
		if len(b.Instrs) == 0 {
			continue
		}
		if _, ok := b.Instrs[len(b.Instrs)-1].(*ssa.Return); ok {
			if b == fr.Block {
				return k
			}
			k++
		}
	}
	return -1
}
