package main

import (
	"fmt"
	"go/token"
	"go/types"
	"strings"

	"golang.org/x/tools/go/ssa"
)

const maxInlineDepth = 10

func (r *Run) calleeVal(st *State, fr *Frame, cc *ssa.CallCommon) Val {
	return r.val(st, fr, cc.Value)
}

func (r *Run) call(st *State, fr *Frame, dst ssa.Value, cc *ssa.CallCommon, in ssa.Instruction) []*State {
	fnv := r.val(st, fr, cc.Value)
	var args []Val
	for _, a := range cc.Args {
		args = append(args, r.val(st, fr, a))
	}
	return r.invoke(st, fr, cc, fnv, args, dst, in)
}

func (r *Run) setResult(st *State, fr *Frame, dst ssa.Value, res []Val) {
	if dst == nil {
		return
	}
	switch len(res) {
	case 0:
		fr.Vals[dst] = &TupleV{}
	case 1:
		fr.Vals[dst] = res[0]
	default:
		fr.Vals[dst] = &TupleV{V: res}
	}
}

func (r *Run) freshResults(st *State, sig *types.Signature, hint string) []Val {
	var res []Val
	for i := 0; i < sig.Results().Len(); i++ {
		res = append(res, r.e.freshVal(st, sig.Results().At(i).Type(), fmt.Sprintf("%s_r%d", hint, i)))
	}
	return res
}

// invoke dispatches a call. cc may describe a call, defer or go site.
func (r *Run) invoke(st *State, fr *Frame, cc *ssa.CallCommon, fnv Val, args []Val, dst ssa.Value, in ssa.Instruction) []*State {
	e := r.e
	sig := cc.Signature()
	if cc.IsInvoke() {
		recv := e.asTerm(fnv, SAny)
		name := fmt.Sprintf("(%s).%s", typeKey(cc.Value.Type()), cc.Method.Name())
		return r.libCall(st, fr, name, recv, args, sig, dst, in, cc)
	}
	switch f := fnv.(type) {
	case *ssa.Builtin:
		return r.builtin(st, fr, f, cc, args, dst, in)
	case *Closure:
		return r.callFunction(st, fr, f.Fn, f.Binds, args, dst, in, cc)
	case *BoundMethod:
		e.regionWrite1(st, "cnt.calls", SInt, f.Term, App(SInt, "+", e.regionRead(st, "cnt.calls", []Sort{SFn}, SInt, f.Term), IntLit(1)))
		if f.Fn != nil {
			return r.callFunction(st, fr, f.Fn, nil, append([]Val{f.Recv}, args...), dst, in, cc)
		}
		r.curBound = f.Term
		forks := r.libCall(st, fr, f.Name, f.Recv, args, sig, dst, in, cc)
		r.curBound = T{}
		return forks
	case T:
		if c, ok := e.closures[f.S]; ok {
			return r.callFunction(st, fr, c.Fn, c.Binds, args, dst, in, cc)
		}
		if m, ok := e.methods[f.S]; ok {
			return r.invoke(st, fr, cc, m, args, dst, in)
		}
		return r.unknownCall(st, fr, f, args, sig, dst, in)
	}
	e.fail("call of %T at %s", fnv, e.posOf(in))
	r.setResult(st, fr, dst, r.freshResults(st, sig, "badcall"))
	return nil
}

// invokeInjected runs a deferred call that was registered in an earlier iteration of a cut loop: only the
// function value is known (from the cell named by the pending-defer clause).
func (r *Run) invokeInjected(st *State, fr *Frame, d Deferred) []*State {
	e := r.e
	if d.InjT != nil {
		if ts := d.InjT.String(); ts == "*time.Ticker" || ts == "*time.Timer" {
			// `defer t.Stop()` registered in an earlier iteration: the variable holds the timer, the pending call is its Stop
			e.region(st, "timer.stopped", []Sort{SRef}, SBool)
			e.regionWrite1(st, "timer.stopped", SBool, e.asTerm(d.Fn, SRef), True)
			st.Counters["calls:(*time.Ticker).Stop"] = App(SInt, "+", r.counter(st, "calls:(*time.Ticker).Stop"), IntLit(1))
			return nil
		}
	}
	f := e.asTerm(d.Fn, SFn)
	e.regionWrite1(st, "cnt.calls", SInt, f, App(SInt, "+", e.regionRead(st, "cnt.calls", []Sort{SFn}, SInt, f), IntLit(1)))
	if m, ok := e.methods[f.S]; ok && m.Name == "context.CancelFunc" {
		c := e.asTerm(m.Recv, SAny)
		e.region(st, "ctx.cancelled", []Sort{SAny}, SBool)
		e.regionWrite1(st, "ctx.cancelled", SBool, c, True)
	}
	return nil
}

// unknownCall: a function value supplied by the user (callback). It may return anything and may panic;
// it is assumed not to re-enter the object it was handed to (it cannot reach unexported state otherwise).
func (r *Run) unknownCall(st *State, fr *Frame, f T, args []Val, sig *types.Signature, dst ssa.Value, in ssa.Instruction) []*State {
	e := r.e
	e.safety(st, fr, in, "nilfunc", Not(Eq(f, NilOf(SFn))), "call of non-nil function value at "+e.posOf(in))
	r.atCall(st, fr, "dynamic", args, sig, in)
	e.note("user callbacks are arbitrary: results unconstrained, may panic; assumed not to re-enter the library object")
	e.regionWrite1(st, "cnt.calls", SInt, f, App(SInt, "+", e.regionRead(st, "cnt.calls", []Sort{SFn}, SInt, f), IntLit(1)))
	r.recordCall(st, f.S, args)
	res := r.freshResults(st, sig, "cb")
	for i, v := range res {
		st.Ghost[fmt.Sprintf("res:%s:%d", f.S, i)] = v
	}
	var forks []*State
	if r.panicMatters(st) && !r.declaredTotal(st, fr, f) {
		p := st.clone()
		for i := range res {
			delete(p.Ghost, fmt.Sprintf("res:%s:%d", f.S, i)) // the call did not return on this path
		}
		p.Panicking = true
		p.PanicVal = e.freshConst("cbpanic", SAny)
		p.Facts["panic.site"] = "callback at " + e.posOf(in)
		pf := p.top()
		pf.InDefers = true
		pf.AfterDef = 1
		forks = append(forks, p)
	}
	r.setResult(st, fr, dst, res)
	r.afterCall(st, fr, "dynamic", args, res, sig, in)
	return forks
}

// declaredTotal: `total NAME ...` in the block of the calling function — the function values held in these
// parameters / captured variables are library functions that do not panic (e.g. the stop function of AfterFunc).
func (r *Run) declaredTotal(st *State, fr *Frame, f T) bool {
	e := r.e
	blk := e.cs.Funcs[e.fnName[fr.Fn]]
	if blk == nil {
		return false
	}
	for _, cl := range blk.All("total") {
		for _, w := range cl.Words {
			if cell, ok := fr.Cells[w]; ok {
				if t, ok := st.Cells[cell].(T); ok && t.S == f.S {
					e.note("%s: the function value %s is assumed not to panic (total)", e.fnName[fr.Fn], w)
					return true
				}
			}
			for i, p := range fr.Fn.Params {
				if p.Name() == w && i < len(fr.Args) {
					if t, ok := fr.Args[i].(T); ok && t.S == f.S {
						return true
					}
				}
			}
		}
	}
	return false
}

func (r *Run) counter(st *State, k string) T {
	if t, ok := st.Counters[k]; ok {
		return t
	}
	return IntLit(0)
}

// recordCall remembers the arguments of the latest call of an unknown function value (for dataflow specs).
func (r *Run) recordCall(st *State, f string, args []Val) {
	for i, a := range args {
		st.Ghost[fmt.Sprintf("arg:%s:%d", f, i)] = a
	}
}

// panicMatters: exploring the panic edge of a call is only useful when something observes it.
func (r *Run) panicMatters(st *State) bool {
	for _, f := range st.Frames {
		if len(f.Defers) > 0 {
			return true
		}
	}
	return r.e.exploreAllPanics
}

func (r *Run) depth(st *State, fn *ssa.Function) (int, bool) {
	rec := false
	for _, f := range st.Frames {
		if f.Fn == fn {
			rec = true
		}
	}
	return len(st.Frames), rec
}

// afterCall: ghost definitions attached to a call site of the function being analysed:
//
//	after-call CALLEE#n assume label : expr      after-call CALLEE#n update : lhs := rhs [if cond]
//
// with ret0.. (results) and arg0.. bound. Used to tie rigid ghost histories to library results.
func (r *Run) afterCall(st *State, fr *Frame, callee string, args []Val, res []Val, sig *types.Signature, in ssa.Instruction) {
	e := r.e
	blk := e.cs.Funcs[e.fnName[fr.Fn]]
	if blk == nil || r.ownClausesOff(st, fr) {
		return
	}
	cls := blk.All("after-call")
	if len(cls) == 0 {
		return
	}
	ord := e.callOrdinal(fr.Fn, in, callee)
	site := fmt.Sprintf("%s#%d", callee, ord)
	e.sitesHit[e.fnName[fr.Fn]+"|"+site] = true
	for _, cl := range cls {
		if len(cl.Words) < 2 || cl.Words[0] != site {
			continue
		}
		extra := map[string]SV{}
		for i, a := range args {
			extra[fmt.Sprintf("arg%d", i)] = SV{V: a}
		}
		for i, v := range res {
			sv := SV{V: v}
			if sig != nil && i < sig.Results().Len() {
				sv.T = sig.Results().At(i).Type()
			}
			extra[fmt.Sprintf("ret%d", i)] = sv
		}
		switch cl.Words[1] {
		case "havoc":
			// after-call SITE havoc : region:<name> ... — state the callee may have changed through closures it was handed
			for _, w := range strings.Fields(cl.Expr) {
				if strings.HasPrefix(w, "region:") {
					nm := strings.TrimPrefix(w, "region:")
					for rn := range e.regions {
						if rn == nm || strings.HasPrefix(rn, nm+".") || (strings.HasSuffix(nm, ".") && strings.HasPrefix(rn, nm)) {
							e.havocRegion(st, rn)
						}
					}
				}
			}
		case "assume":
			x, err := parseSpec(cl.Expr)
			if err != nil {
				e.fail("%v", err)
				continue
			}
			c := e.clauseCtx(st, fr, extra)
			c.inLoop = true
			st.assume(c.boolTerm(x))
			e.note("ghost definition at %s in %s: %s", site, e.fnName[fr.Fn], cl.Expr)
		case "update":
			r.applyUpdateAtExit(st, fr, cl, extra)
		}
	}
}

// atCall: caller-side assertions about one call site (`at-call callee#n label : expr`, args as arg0..).
func (r *Run) atCall(st *State, fr *Frame, callee string, args []Val, sig *types.Signature, in ssa.Instruction) {
	e := r.e
	ord := e.callOrdinal(fr.Fn, in, callee)
	site := fmt.Sprintf("%s#%d", callee, ord)
	// the clause may live in the block of the function containing the call, or in the block of an
	// enclosing (inlining) function, where the site is written inlined1>inlined2>callee#n
	for j := len(st.Frames) - 1; j >= 0; j-- {
		f := st.Frames[j]
		qs := site
		for k := len(st.Frames) - 1; k > j; k-- {
			qs = e.fnName[st.Frames[k].Fn] + ">" + qs
		}
		fname := e.fnName[f.Fn]
		e.sitesHit[fname+"|"+qs] = true
		blk := e.cs.Funcs[fname]
		if blk == nil || (j == len(st.Frames)-1 && r.ownClausesOff(st, f)) {
			continue
		}
		for _, cl := range blk.All("at-call") {
			if len(cl.Words) < 1 || cl.Words[0] != qs {
				continue
			}
			extra := map[string]SV{}
			for i, a := range args {
				sv := SV{V: a}
				if sig != nil {
					k := i
					if sig.Recv() != nil && len(args) > sig.Params().Len() {
						k = i - 1
					}
					if k >= 0 && k < sig.Params().Len() {
						sv.T = sig.Params().At(k).Type()
					}
				}
				extra[fmt.Sprintf("arg%d", i)] = sv
			}
			e.obligationClause(st, f, fmt.Sprintf("%s/at-call@%s:%s", fname, qs, cl.Label()), cl, extra)
		}
	}
}

func (r *Run) callFunction(st *State, fr *Frame, fn *ssa.Function, binds []Val, args []Val, dst ssa.Value, in ssa.Instruction, cc *ssa.CallCommon) []*State {
	e := r.e
	if o := fn.Origin(); o != nil {
		fn = o // calls inside generic bodies name instantiations; contracts and bodies belong to the generic function
	}
	if n, ok := e.fnName[fn]; ok {
		r.atCall(st, fr, n, args, fn.Signature, in)
	}
	if fn.Pkg != e.pkg || len(fn.Blocks) == 0 {
		name := fn.String()
		var recv Val
		if fn.Signature.Recv() != nil && len(args) > 0 {
			recv = args[0]
			args = args[1:]
		}
		return r.libCall(st, fr, name, recv, args, fn.Signature, dst, in, cc)
	}
	name := e.fnName[fn]
	blk := e.cs.Funcs[name]
	isClosure := fn.Parent() != nil && !strings.HasPrefix(name, "var:")
	useContract := blk != nil && blk.First("inline") == nil && (!isClosure || blk.First("modular") != nil)
	if useContract {
		return r.applyContract(st, fr, fn, blk, args, dst, in, binds)
	}
	d, rec := r.depth(st, fn)
	if rec || d >= maxInlineDepth {
		e.note("call of %s not inlined (recursion/depth): results and heap havoced", name)
		e.havocAllHeap(st, "call "+name)
		r.setResult(st, fr, dst, r.freshResults(st, fn.Signature, "rec"))
		return nil
	}
	if !isClosure {
		e.note("helper %s has no contract and is inlined at its call sites", name)
	}
	r.pushFrame(st, fn, binds, args, dst, in)
	return nil
}

func (r *Run) pushFrame(st *State, fn *ssa.Function, binds []Val, args []Val, dst ssa.Value, in ssa.Instruction) *Frame {
	r.e.entered[r.e.fnName[fn]] = true
	nf := &Frame{Fn: fn, Vals: map[ssa.Value]Val{}, Binds: binds, Args: args, Dst: dst, Cells: map[string]*Cell{}, LoopSeen: map[int]bool{}, CallSite: in}
	for i, p := range fn.Params {
		if i < len(args) {
			nf.Vals[p] = args[i]
		} else {
			nf.Vals[p] = r.e.freshVal(st, p.Type(), "param_"+p.Name())
		}
	}
	st.Frames = append(st.Frames, nf)
	r.enterBlock(st, nf, fn.Blocks[0])
	return nf
}

// callOrdinal: index of this call among the calls of the same callee in the calling function.
func (e *Engine) callOrdinal(caller *ssa.Function, in ssa.Instruction, callee string) int {
	n := 0
	if callee == "recv" {
		for _, b := range caller.Blocks {
			for _, i := range b.Instrs {
				isRecv := false
				switch x := i.(type) {
				case *ssa.UnOp:
					isRecv = x.Op == token.ARROW
				case *ssa.Select:
					for _, s := range x.States {
						if s.Dir == types.RecvOnly {
							isRecv = true
						}
					}
				}
				if isRecv {
					if i == in {
						return n
					}
					n++
				}
			}
		}
		return n
	}
	if callee == "send" {
		// ordinal among the instructions that can send (Send, Select with a send case)
		for _, b := range caller.Blocks {
			for _, i := range b.Instrs {
				isSend := false
				switch x := i.(type) {
				case *ssa.Send:
					isSend = true
				case *ssa.Select:
					for _, s := range x.States {
						if s.Dir == types.SendOnly {
							isSend = true
						}
					}
				}
				if isSend {
					if i == in {
						return n
					}
					n++
				}
			}
		}
		return n
	}
	for _, b := range caller.Blocks {
		for _, i := range b.Instrs {
			if ci, ok := i.(ssa.CallInstruction); ok {
				if e.calleeName(ci.Common()) == callee {
					if i == in {
						return n
					}
					n++
				}
			}
		}
	}
	return n
}

func (e *Engine) calleeName(cc *ssa.CallCommon) string {
	if cc.IsInvoke() {
		return fmt.Sprintf("(%s).%s", typeKey(cc.Value.Type()), cc.Method.Name())
	}
	switch f := cc.Value.(type) {
	case *ssa.Function:
		if o := f.Origin(); o != nil {
			f = o
		}
		if n, ok := e.fnName[f]; ok {
			return n
		}
		return f.String()
	case *ssa.MakeClosure:
		if fn, ok := f.Fn.(*ssa.Function); ok {
			if n, ok := e.fnName[fn]; ok {
				return n
			}
			return fn.String()
		}
	case *ssa.Builtin:
		return "builtin." + f.Name()
	}
	return "dynamic"
}

// usesPathGhosts: does a clause mention ghost state that is local to one execution of a function body.
func usesPathGhosts(expr string) bool {
	for _, g := range []string{"spawned(", "calls(", "lastres(", "lastarg(", "lastsent(", "lastrecv(", "receivedfrom(", "wgwaited(", "lasterr(", "lastrand(",
		"icalls(", "ilast(", "calledsince(", "atomics(", "apre(", "apost(", "aop(", "panicking(", "nolocks(", "held(", "heldW(", "heldR(", "heldcond(", "mapkey(", "mapidx(", "now(", "atentry(", "athead(", "nevercancelled(", "captured("} {
		if strings.Contains(expr, g) {
			return true
		}
	}
	return false
}

func sigHasInts(sig *types.Signature) bool {
	has := func(t types.Type) bool {
		switch u := t.Underlying().(type) {
		case *types.Basic:
			return u.Info()&types.IsInteger != 0
		case *types.Slice:
			if b, ok := u.Elem().Underlying().(*types.Basic); ok {
				return b.Info()&types.IsInteger != 0
			}
		}
		return false
	}
	for i := 0; i < sig.Params().Len(); i++ {
		if has(sig.Params().At(i).Type()) {
			return true
		}
	}
	for i := 0; i < sig.Results().Len(); i++ {
		if has(sig.Results().At(i).Type()) {
			return true
		}
	}
	return false
}

// contractVars binds parameter names of fn to argument values.
func (e *Engine) contractVars(fn *ssa.Function, args []Val) map[string]SV {
	m := map[string]SV{}
	for i, p := range fn.Params {
		if i < len(args) {
			m[p.Name()] = SV{V: args[i], T: p.Type()}
		}
	}
	return m
}

func (e *Engine) bindResults(fn *ssa.Function, vars map[string]SV, res []Val) {
	sig := fn.Signature
	for i := 0; i < sig.Results().Len() && i < len(res); i++ {
		rv := sig.Results().At(i)
		vars[fmt.Sprintf("ret%d", i)] = SV{V: res[i], T: rv.Type()}
		if rv.Name() != "" && rv.Name() != "_" {
			vars[rv.Name()] = SV{V: res[i], T: rv.Type()}
		}
	}
	if sig.Results().Len() == 1 && len(res) == 1 {
		vars["ret"] = SV{V: res[0], T: sig.Results().At(0).Type()}
	}
}

// applyContract: assert pre, havoc frame, assume post.
func (r *Run) applyContract(st *State, fr *Frame, fn *ssa.Function, blk *Block, args []Val, dst ssa.Value, in ssa.Instruction, binds []Val) []*State {
	e := r.e
	callee := e.fnName[fn]
	caller := e.fnName[fr.Fn]
	vars := e.contractVars(fn, args)
	// a closure with its own contract: its captured variables are visible to the contract by name
	var written []*Cell
	writtenName := map[*Cell]string{}
	for i, fv := range fn.FreeVars {
		if i < len(binds) {
			if a, ok := binds[i].(*Addr); ok && a.Kind == ACell {
				vars[fv.Name()] = SV{V: st.Cells[a.Cell], T: a.Cell.Typ}
				if closureWrites(fn, i) || e.guardLocal(fn, fv.Name()) != "" {
					written = append(written, a.Cell)
					writtenName[a.Cell] = fv.Name()
				}
			} else if t, ok := binds[i].(T); ok {
				vars[fv.Name()] = SV{V: t, T: fv.Type()}
			}
		}
	}
	// Go's mutexes are not re-entrant (and a nested RLock deadlocks as soon as a writer queues up in between): a callee whose
	// contract says it takes its receiver's lock (`action L`) must not be called while that very lock is held
	if act := blk.First("action"); act != nil && len(act.Words) > 0 && fn.Signature.Recv() != nil && len(args) > 0 {
		if rt, ok := args[0].(T); ok && rt.So == SRef {
			recvT := fn.Signature.Recv().Type()
			if pt, ok := recvT.Underlying().(*types.Pointer); ok {
				recvT = pt.Elem()
			}
			if named, ok := recvT.(*types.Named); ok {
				if key, ok := r.lockKeyOf(st, named, named.Obj().Name(), act.Words[0], rt); ok {
					var cs []T
					class := named.Obj().Name() + "." + act.Words[0]
					for _, h := range st.Locks {
						if h.Key.So == key.So && h.Class == class {
							cs = append(cs, Not(Eq(h.Key, key)))
						}
					}
					goal := True
					if len(cs) > 0 {
						goal = And(cs...)
					}
					e.emitWith(st, fmt.Sprintf("%s/reentrant@%s#%d", caller, callee, e.callOrdinal(fr.Fn, in, callee)), "", nil, goal,
						callee+" takes "+act.Words[0]+" of its receiver, which the caller must not hold (lockset {"+locksKey(st.Locks)+"})", e.posOf(in), []string{"C12"}, nil)
				}
			}
		}
	}
	postDone := false
	oldVars := map[string]SV{}
	// the call may have assigned the captured variables it writes (or, for guard-local variables, another
	// thread may have): postconditions speak about the new values, old() about the previous ones — for
	// guard-local variables about the unknown values the callee found when it took the lock
	havocWritten := func() {
		if postDone {
			return
		}
		postDone = true
		for _, c := range written {
			pre := st.Cells[c]
			if e.guardLocal(fn, writtenName[c]) != "" {
				pre = e.freshVal(st, c.Typ, "acq_"+c.Name)
			}
			oldVars[writtenName[c]] = SV{V: pre, T: c.Typ}
			st.Cells[c] = e.freshVal(st, c.Typ, "cw_"+c.Name)
			vars[writtenName[c]] = SV{V: st.Cells[c], T: c.Typ}
		}
	}
	defer havocWritten()
	ord := e.callOrdinal(fr.Fn, in, callee)
	mkCtx := func(s *State, old map[string]string) *SpecCtx {
		c := e.specCtx(s, nil)
		c.entry = vars
		c.vars = map[string]SV{}
		for k, v := range vars {
			c.vars[k] = v
		}
		c.old = old
		c.oldVars = oldVars
		return c
	}
	calleeBV := e.bvFiles[shortFile(e.prog.Fset.Position(fn.Pos()).Filename)]
	if m := blk.First("mode"); m != nil && len(m.Words) > 0 && m.Words[0] == "bv" {
		calleeBV = true
	}
	if calleeBV != e.bv && !sigHasInts(fn.Signature) {
		// no integers cross the boundary: evaluate the callee's contract in the callee's representation
		saved := e.bv
		e.bv = calleeBV
		defer func() { e.bv = saved }()
	} else if calleeBV != e.bv {
		// integer representation differs between caller and callee: the callee's contract cannot be
		// evaluated here; the call is an arbitrary value of the result type (caller-side facts go in at-call clauses)
		e.note("call of %s crosses the int/bv representation boundary: result unconstrained at this call site", callee)
		e.usedContracts[callee] = true
		r.setResult(st, fr, dst, r.freshResults(st, fn.Signature, "ret_"+callee))
		return nil
	}
	for _, cl := range blk.All("requires") {
		x, err := parseSpec(cl.Expr)
		if err != nil {
			e.fail("%v", err)
			continue
		}
		c := mkCtx(st, nil)
		var items []goalItem
		c.splitGoal(x, nil, "", &items)
		name := fmt.Sprintf("%s/requires@%s#%d:%s", caller, callee, ord, cl.Label())
		for _, it := range items {
			e.emitWith(st, name, it.sub, it.hyps, it.atom, cl.Expr, e.posOf(in), cl.Props, cl)
		}
		st.assume(c.boolTerm(x))
	}
	for _, cl := range blk.All("holds") {
		x, err := parseSpec(cl.Expr)
		if err != nil {
			e.fail("%v", err)
			continue
		}
		c := mkCtx(st, nil)
		v := c.eval(x)
		key, ok := v.V.(T)
		goal := False
		if ok {
			var ds []T
			for _, l := range st.Locks {
				if len(cl.Words) > 0 && cl.Words[0] == "W" && l.Mode != LockW {
					continue
				}
				ds = append(ds, Eq(l.Key, key))
			}
			goal = Or(ds...)
		}
		e.emitWith(st, fmt.Sprintf("%s/requires@%s#%d:holds", caller, callee, ord), "", nil, goal, "caller holds "+cl.Expr, e.posOf(in), []string{"C11"}, cl)
	}
	e.usedContracts[callee] = true
	st.Counters["calls:"+callee] = App(SInt, "+", r.counter(st, "calls:"+callee), IntLit(1))
	st.Ghost["called:"+callee] = True
	var forks []*State
	// panics clauses (evaluated in the pre-state)
	var panicConds []T
	for _, cl := range blk.All("panics") {
		x, err := parseSpec(cl.Expr)
		if err != nil {
			e.fail("%v", err)
			continue
		}
		panicConds = append(panicConds, mkCtx(st, nil).boolTerm(x))
	}
	mayPanic := blk.First("maypanic") != nil
	wantPanicFork := len(panicConds) > 0 || (mayPanic && r.panicMatters(st))
	// effects
	var recv T
	if fn.Signature.Recv() != nil && len(args) > 0 {
		if t, ok := args[0].(T); ok {
			recv = t
		}
	}
	if act := blk.First("action"); act != nil && recv.S != "" && len(act.Words) > 0 {
		r.interference(st, fn, recv, act.Words[0])
	}
	old := copyHeap(st.Heap)
	for _, as := range blk.All("assigns") {
		r.applyAssigns(st, fn, recv, as, vars)
	}
	if act := blk.First("action"); act != nil && recv.S != "" && len(act.Words) > 0 && blk.First("assigns") == nil {
		r.havocGuarded(st, fn, recv, act.Words[0])
	}
	res := r.freshResults(st, fn.Signature, "ret_"+callee)
	e.bindResults(fn, vars, res)
	for i, v := range res {
		st.Ghost[fmt.Sprintf("ires:%s:%d", callee, i)] = v
	}
	havocWritten()
	if wantPanicFork {
		// the panicking outcome: the callee's effects may have happened before the panic (the state is havoced as
		// for a normal return); its ensures-panic clauses describe what is known then
		p := st.clone()
		if len(panicConds) > 0 && !mayPanic {
			p.assume(Or(panicConds...))
		}
		for _, cl := range blk.All("ensures-panic") {
			x, err := parseSpec(cl.Expr)
			if err != nil || usesPathGhosts(cl.Expr) {
				continue
			}
			nerr := len(e.errors)
			t := mkCtx(p, old).boolTerm(x)
			if len(e.errors) > nerr {
				e.errors = e.errors[:nerr]
				continue
			}
			p.assume(t)
		}
		p.Panicking = true
		p.PanicVal = e.freshConst("panic_"+callee, SAny)
		p.Facts["panic.site"] = callee + " at " + e.posOf(in)
		pf := p.top()
		pf.InDefers = true
		pf.AfterDef = 1
		forks = append(forks, p)
		for _, pc := range panicConds {
			st.assume(Not(pc))
		}
	}
	for _, cl := range append(append([]*Clause{}, blk.All("ensures")...), blk.All("assumes")...) {
		x, err := parseSpec(cl.Expr)
		if err != nil {
			e.fail("%v", err)
			continue
		}
		if cl.Kind == "assumes" {
			e.note("ASSUMED (unchecked) postcondition of %s, used at its call sites: %s", callee, cl.Expr)
		}
		if usesPathGhosts(cl.Expr) {
			// talks about the callee's own execution (spawn/call counters, observed atomics, ...): meaningless for the caller
			continue
		}
		nerr := len(e.errors)
		t := mkCtx(st, old).boolTerm(x)
		if len(e.errors) > nerr {
			// the clause talks about the callee's internals (locals, call records): not usable at call sites
			e.errors = e.errors[:nerr]
			e.note("postcondition %s/%s mentions callee-internal state and is not assumed at call sites", callee, cl.Label())
			continue
		}
		st.assume(t)
	}
	for _, cl := range blk.All("lockpost") {
		r.applyLockPost(st, fn, cl, vars)
	}
	r.setResult(st, fr, dst, res)
	return forks
}

// applyAssigns havocs the locations named by an `assigns` clause: field names of the receiver,
// `ghost.<name>`, `map:<field>` (contents of the map held in that receiver field) or `*`.
func (r *Run) applyAssigns(st *State, fn *ssa.Function, recv T, cl *Clause, vars map[string]SV) {
	e := r.e
	words := append(append([]string(nil), cl.Words...), strings.Fields(cl.Expr)...)
	for _, w := range words {
		switch {
		case w == "*":
			e.havocAllHeap(st, "assigns *")
		case w == "nothing":
		case strings.HasPrefix(w, "region:"):
			name := strings.TrimPrefix(w, "region:")
			for rn := range e.regions {
				if rn == name || strings.HasPrefix(rn, name+".") {
					e.havocRegion(st, rn)
				}
			}
		default:
			if recv.S == "" {
				e.fail("assigns %s without receiver", w)
				continue
			}
			r.havocField(st, fn.Signature.Recv().Type(), recv, w)
		}
	}
}

// havocField forgets field fname (and, for maps, the contents of the map it holds) of object ref.
func (r *Run) havocField(st *State, recvT types.Type, ref T, fname string) {
	e := r.e
	pt := recvT
	if p, ok := pt.Underlying().(*types.Pointer); ok {
		pt = p.Elem()
	}
	key := e.structKey(pt)
	s, ok := pt.Underlying().(*types.Struct)
	if !ok {
		return
	}
	for i := 0; i < s.NumFields(); i++ {
		f := s.Field(i)
		if f.Name() != fname {
			continue
		}
		base := fieldRegionName(key, fname)
		// make sure the regions exist
		e.readLoc(st, base, f.Type(), ref)
		for rn := range e.regions {
			if rn == base || strings.HasPrefix(rn, base+".") {
				e.havocRegionAt(st, rn, ref)
			}
		}
		if _, isMap := f.Type().Underlying().(*types.Map); isMap {
			m := e.readLoc(st, base, f.Type(), ref).(T)
			r.havocMapAt(st, f.Type(), m)
		}
		if sl, isSl := f.Type().Underlying().(*types.Slice); isSl {
			_ = sl
			l := e.regionRead(st, base+".len", []Sort{SRef}, SInt, ref)
			st.assume(App(SBool, ">=", l, IntLit(0)))
			n := e.regionRead(st, base+".nil", []Sort{SRef}, SBool, ref)
			st.assume(Implies(n, Eq(l, IntLit(0))))
		}
		return
	}
	// ghost field
	gname := "ghost." + key + "." + fname
	if e.regions[gname] != nil {
		e.havocRegionAt(st, gname, ref)
		return
	}
	if tb := e.cs.Types[key]; tb != nil {
		for _, g := range tb.All("ghost") {
			if len(g.Words) >= 2 && g.Words[0] == fname {
				e.regionRead(st, gname, []Sort{SRef}, ghostSort(e, g.Words[1]), ref)
				e.havocRegionAt(st, gname, ref)
				return
			}
		}
	}
	e.fail("havocField: no field %s in %s", fname, key)
}

func (r *Run) havocMapAt(st *State, mt types.Type, m T) {
	e := r.e
	ml := e.mapLayout(mt)
	e.mapHas(st, ml, m, e.asTerm(e.zeroVal(st, ml.mt.Key()), ml.ksort))
	e.mapLen(st, ml, m)
	e.mapVal(st, ml, m, e.asTerm(e.zeroVal(st, ml.mt.Key()), ml.ksort))
	for rn := range e.regions {
		if strings.HasPrefix(rn, ml.key+".") {
			e.havocRegionAt(st, rn, m)
		}
	}
	st.assume(App(SBool, ">=", e.mapLen(st, ml, m), IntLit(0)))
}

// ---------------------------------------------------------------------------------------------
// Builtins

func (r *Run) builtin(st *State, fr *Frame, b *ssa.Builtin, cc *ssa.CallCommon, args []Val, dst ssa.Value, in ssa.Instruction) []*State {
	e := r.e
	switch b.Name() {
	case "close", "delete", "panic", "append", "copy":
		r.atCall(st, fr, "builtin."+b.Name(), args, nil, in)
	}
	switch b.Name() {
	case "len":
		switch x := args[0].(type) {
		case *SliceV:
			r.setResult(st, fr, dst, []Val{r.fromInt(x.Len, cc.Signature().Results().At(0).Type())})
		case T:
			if _, ok := cc.Args[0].Type().Underlying().(*types.Map); ok {
				ml := e.mapLayout(cc.Args[0].Type())
				r.mapAccessCheck(st, fr, x, false, in)
				l := Ite(Eq(x, NilOf(SRef)), IntLit(0), e.mapLen(st, ml, x))
				// the length of a map is never negative, and an empty map has no keys (the converse needs counting and is not assumed)
				k := T{"k!q", ml.ksort}
				ml0 := e.mapLen(st, ml, x)
				st.assume(App(SBool, ">=", ml0, IntLit(0)))
				st.assume(Implies(Eq(ml0, IntLit(0)), Forall([]T{k}, nil, Not(e.mapHas(st, ml, x, k)))))
				r.setResult(st, fr, dst, []Val{r.fromInt(l, types.Typ[types.Int])})
			} else if x.So == SChan {
				v := e.freshConst("chanlen", SInt)
				st.assume(App(SBool, ">=", v, IntLit(0)))
				r.setResult(st, fr, dst, []Val{r.fromInt(v, types.Typ[types.Int])})
			} else {
				v := e.freshConst("len", SInt)
				st.assume(App(SBool, ">=", v, IntLit(0)))
				r.setResult(st, fr, dst, []Val{r.fromInt(v, types.Typ[types.Int])})
			}
		default:
			e.fail("len of %T", args[0])
		}
	case "cap":
		switch x := args[0].(type) {
		case *SliceV:
			c := e.freshConst("cap", SInt)
			st.assume(App(SBool, ">=", c, x.Len))
			r.setResult(st, fr, dst, []Val{r.fromInt(c, types.Typ[types.Int])})
		case T:
			if x.So == SChan {
				c := e.regionRead(st, "chan.cap", []Sort{SChan}, SInt, x)
				r.setResult(st, fr, dst, []Val{r.fromInt(Ite(Eq(x, NilOf(SChan)), IntLit(0), c), types.Typ[types.Int])})
			} else {
				r.setResult(st, fr, dst, []Val{e.freshVal(st, types.Typ[types.Int], "cap")})
			}
		}
	case "append":
		r.setResult(st, fr, dst, []Val{r.appendOp(st, fr, cc, args, in)})
	case "copy":
		r.setResult(st, fr, dst, []Val{r.copyOp(st, fr, cc, args, in)})
	case "delete":
		ml := e.mapLayout(cc.Args[0].Type())
		m := e.asTerm(args[0], SRef)
		k := e.asTerm(args[1], ml.ksort)
		r.mapKeyAccessCheck(st, fr, m, k, in)
		e.mapDelete(st, ml, m, k)
	case "close":
		ch := e.asTerm(args[0], SChan)
		return r.closeChan(st, fr, ch, in)
	case "panic":
		st.Panicking = true
		st.PanicVal = args[0]
		fr.InDefers = true
		fr.AfterDef = 1
	case "recover":
		res := NilOf(SAny)
		if st.Panicking {
			st.Panicking = false
			res = e.asTerm(st.PanicVal, SAny)
			st.Facts["recovered"] = "1"
		}
		r.setResult(st, fr, dst, []Val{res})
	case "min", "max":
		so := e.sortOf(cc.Args[0].Type())
		a, bb := e.asTerm(args[0], so), e.asTerm(args[1], so)
		op := "<="
		if b.Name() == "max" {
			op = ">="
		}
		if so.IsBV() {
			e.fail("min/max in bv mode")
		}
		r.setResult(st, fr, dst, []Val{Ite(App(SBool, op, a, bb), a, bb)})
	case "ssa:wrapnilchk":
		r.setResult(st, fr, dst, []Val{args[0]})
	case "ssa:deferstack":
		r.setResult(st, fr, dst, []Val{T{"deferstack", "Opaque"}})
	case "print", "println":
	default:
		e.fail("builtin %s", b.Name())
		if dst != nil {
			fr.Vals[dst] = e.freshVal(st, dst.Type(), "builtin")
		}
	}
	return nil
}

// fromInt converts an Int-sorted engine term to the representation of Go type t (bv mode).
func (r *Run) fromInt(t T, typ types.Type) T {
	if r.e.bv {
		w := intBits(typ)
		return App(BV(w), fmt.Sprintf("(_ int2bv %d)", w), t)
	}
	return t
}

func (r *Run) appendOp(st *State, fr *Frame, cc *ssa.CallCommon, args []Val, in ssa.Instruction) Val {
	e := r.e
	u, ok := cc.Args[0].Type().Underlying().(*types.Slice)
	if !ok {
		return e.freshVal(st, cc.Signature().Results().At(0).Type(), "append")
	}
	a := e.asSlice(args[0], u)
	var b *SliceV
	switch x := args[1].(type) {
	case *SliceV:
		b = x
	default:
		if _, isStr := cc.Args[1].Type().Underlying().(*types.Basic); isStr {
			return e.freshVal(st, cc.Args[0].Type(), "appendstr")
		}
		b = e.asSlice(x, u)
	}
	i := T{"i!", SInt}
	at := e.defineFun("append", []T{i}, a.Elem, Ite(App(SBool, "<", i, a.Len), a.at(i), b.at(App(SInt, "-", i, a.Len))))
	n := &SliceV{Len: App(SInt, "+", a.Len, b.Len), At: at, Elem: a.Elem, ElemT: a.ElemT}
	// append(nil, <empty>...) stays nil; anything else is non-nil
	n.Nil = And(a.Nil, Eq(b.Len, IntLit(0)))
	return n
}

func (r *Run) backingAccessCheck(st *State, fr *Frame, sv *SliceV, in ssa.Instruction) {
	if sv == nil || sv.Src == nil || sv.Src.Kind != AField {
		return
	}
	r.accessCheck(st, fr, sv.Src, false, in)
}

func (r *Run) copyOp(st *State, fr *Frame, cc *ssa.CallCommon, args []Val, in ssa.Instruction) Val {
	e := r.e
	dstS, ok1 := args[0].(*SliceV)
	srcS, ok2 := args[1].(*SliceV)
	if !ok1 || !ok2 {
		e.fail("copy of non-slices at %s", e.posOf(in))
		return e.freshVal(st, types.Typ[types.Int], "copy")
	}
	n := Ite(App(SBool, "<=", dstS.Len, srcS.Len), dstS.Len, srcS.Len)
	// reading the elements of a slice value that still is the backing array of a lock-guarded field is an access to that
	// field (a header copied under the lock does not carry the lock with it)
	r.backingAccessCheck(st, fr, srcS, in)
	if dstS.Org == nil {
		// destination is a fresh temporary (e.g. make(...)): copy into a value nobody else holds
		e.fail("copy into slice with unknown origin at %s", e.posOf(in))
		return r.fromInt(n, types.Typ[types.Int])
	}
	off := dstS.OrgOff
	srcAt := srcS.At
	r.writeBack(st, fr, dstS, func(i T, old T) T {
		rel := App(SInt, "-", i, off)
		return Ite(And(App(SBool, "<=", off, i), App(SBool, "<", rel, n)), App(srcS.Elem, srcAt, rel), old)
	}, in)
	return r.fromInt(n, types.Typ[types.Int])
}
