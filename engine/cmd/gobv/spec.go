package main

import (
	"fmt"
	"go/ast"
	"go/parser"
	"go/token"
	"go/types"
	"sort"
	"strconv"
	"strings"

	"golang.org/x/tools/go/ssa"
)

// SV is a spec-level value with (optionally) its Go type.
type SV struct {
	V Val
	T types.Type
}

type SpecCtx struct {
	e        *Engine
	st       *State
	fr       *Frame
	vars     map[string]SV
	entry    map[string]SV // parameter values at function entry
	old      map[string]string
	oldVars  map[string]SV // old() values of captured variables a called closure writes
	inOld    bool
	inLoop   bool // identifiers resolve to cells first
	self     string
	goalHyps *[]T
	uns      bool
}

// rewriteImplies turns `A ==> B` into implies(A,B), respecting brackets; `<==>` into iff(A,B).
func rewriteImplies(s string) string {
	parts := splitTop(s, ",")
	if len(parts) > 1 {
		for i := range parts {
			parts[i] = rewriteImplies(parts[i])
		}
		return strings.Join(parts, ",")
	}
	if i := indexTop(s, "<==>"); i >= 0 {
		return "iff(" + rewriteImplies(s[:i]) + "," + rewriteImplies(s[i+4:]) + ")"
	}
	if i := indexTop(s, "==>"); i >= 0 {
		return "implies(" + rewriteImplies(s[:i]) + "," + rewriteImplies(s[i+3:]) + ")"
	}
	// recurse into bracket groups
	var b strings.Builder
	depth := 0
	start := -1
	for i := 0; i < len(s); i++ {
		c := s[i]
		switch c {
		case '(', '[':
			if depth == 0 {
				b.WriteByte(c)
				start = i + 1
			}
			depth++
		case ')', ']':
			depth--
			if depth == 0 {
				b.WriteString(rewriteImplies(s[start:i]))
				b.WriteByte(c)
			}
		default:
			if depth == 0 {
				b.WriteByte(c)
			}
		}
	}
	return b.String()
}

func indexTop(s, sep string) int {
	depth := 0
	for i := 0; i+len(sep) <= len(s); i++ {
		switch s[i] {
		case '(', '[':
			depth++
		case ')', ']':
			depth--
		}
		if depth == 0 && strings.HasPrefix(s[i:], sep) {
			if sep == "==>" && i > 0 && s[i-1] == '<' {
				continue
			}
			return i
		}
	}
	return -1
}

func splitTop(s, sep string) []string {
	var out []string
	depth := 0
	last := 0
	for i := 0; i < len(s); i++ {
		switch s[i] {
		case '(', '[':
			depth++
		case ')', ']':
			depth--
		}
		if depth == 0 && strings.HasPrefix(s[i:], sep) {
			out = append(out, s[last:i])
			last = i + len(sep)
		}
	}
	out = append(out, s[last:])
	return out
}

var exprCache = map[string]ast.Expr{}

func parseSpec(s string) (ast.Expr, error) {
	if x, ok := exprCache[s]; ok {
		return x, nil
	}
	rw := rewriteImplies(s)
	x, err := parser.ParseExpr(rw)
	if err != nil {
		return nil, fmt.Errorf("cannot parse spec %q (rewritten %q): %v", s, rw, err)
	}
	exprCache[s] = x
	return x, nil
}

func (c *SpecCtx) sub() *SpecCtx {
	n := *c
	n.vars = make(map[string]SV, len(c.vars)+1)
	for k, v := range c.vars {
		n.vars[k] = v
	}
	return &n
}

func (c *SpecCtx) bad(format string, a ...interface{}) SV {
	c.e.fail("spec: "+format, a...)
	return SV{V: c.e.freshConst("badspec", SBool)}
}

func (c *SpecCtx) term(x ast.Expr) T {
	v := c.eval(x)
	switch t := v.V.(type) {
	case T:
		return t
	case *Closure:
		return t.Term
	case *BoundMethod:
		return t.Term
	}
	c.e.fail("spec: expected scalar, got %T in %s", v.V, exprString(x))
	return c.e.freshConst("badspec", SBool)
}

func (c *SpecCtx) boolTerm(x ast.Expr) T {
	t := c.term(x)
	if t.So == "AnyLit" {
		return c.e.freshConst(t.S, SBool) // result of a call that did not happen on this path: arbitrary
	}
	if t.So != SBool {
		c.e.fail("spec: expected bool in %s, got %s", exprString(x), t.So)
		return c.e.freshConst("badspec", SBool)
	}
	return t
}

func exprString(x ast.Expr) string {
	return types.ExprString(x)
}

func (c *SpecCtx) withHeap(h map[string]string, f func() SV) SV {
	save := c.st.Heap
	c.st.Heap = h
	defer func() {
		// regions created during evaluation must exist in both maps with identical initial symbols
		c.st.Heap = save
	}()
	return f()
}

func (c *SpecCtx) eval(x ast.Expr) SV {
	e := c.e
	switch n := x.(type) {
	case *ast.ParenExpr:
		return c.eval(n.X)
	case *ast.BasicLit:
		switch n.Kind {
		case token.INT:
			v, _ := strconv.ParseInt(n.Value, 0, 64)
			return SV{V: T{fmt.Sprintf("%d", v), "IntLit"}}
		case token.STRING:
			s, _ := strconv.Unquote(n.Value)
			return SV{V: e.strConst(s)}
		}
		return c.bad("literal %s", n.Value)
	case *ast.Ident:
		return c.ident(n.Name)
	case *ast.UnaryExpr:
		switch n.Op {
		case token.NOT:
			return SV{V: Not(c.boolTerm(n.X))}
		case token.SUB:
			v := c.eval(n.X)
			t := v.V.(T)
			if t.So == "IntLit" {
				k, _ := strconv.ParseInt(t.S, 10, 64)
				return SV{V: T{fmt.Sprintf("%d", -k), "IntLit"}}
			}
			if t.So.IsBV() {
				return SV{V: App(t.So, "bvneg", t), T: v.T}
			}
			return SV{V: App(SInt, "-", t), T: v.T}
		}
	case *ast.BinaryExpr:
		return c.binary(n)
	case *ast.SelectorExpr:
		return c.selector(n)
	case *ast.IndexExpr:
		xv := c.eval(n.X)
		iv := c.intArg(n.Index)
		if sv, ok := xv.V.(*SliceV); ok {
			// an element of a literal (e.g. variadic) slice built on this path keeps its identity (closures, bound methods)
			if tab := e.litElems[sv.At]; tab != nil {
				if k, err := strconv.ParseInt(iv.S, 10, 64); err == nil {
					if v, ok := tab[k]; ok {
						return SV{V: v, T: sv.ElemT}
					}
				}
			}
			return SV{V: sv.at(iv), T: sv.ElemT}
		}
		// map index: m[k]
		if xv.T != nil {
			if _, ok := xv.T.Underlying().(*types.Map); ok {
				ml := e.mapLayout(xv.T)
				k := c.coerceTo(c.eval(n.Index), ml.ksort)
				return SV{V: e.mapVal(c.st, ml, xv.V.(T), k), T: ml.mt.Elem()}
			}
		}
		return c.bad("index of %T", xv.V)
	case *ast.CallExpr:
		return c.call(n)
	}
	return c.bad("unsupported expression %s", exprString(x))
}

func (c *SpecCtx) intArg(x ast.Expr) T {
	v := c.eval(x)
	t, ok := v.V.(T)
	if !ok {
		return c.bad("int expected").V.(T)
	}
	if t.So == "IntLit" {
		k, _ := strconv.ParseInt(t.S, 10, 64)
		return IntLit(k)
	}
	if t.So == "AnyLit" {
		return c.e.freshConst(t.S, SInt)
	}
	if t.So.IsBV() {
		r := &Run{e: c.e}
		if v.T != nil {
			return r.toInt(t, v.T)
		}
		return App(SInt, "bv2nat", t)
	}
	return t
}

func (c *SpecCtx) coerceTo(v SV, so Sort) T {
	t, ok := v.V.(T)
	if !ok {
		switch x := v.V.(type) {
		case *Closure:
			t = x.Term
		case *BoundMethod:
			t = x.Term
		case *Addr:
			t = c.e.addrTerm(x)
		default:
			c.e.fail("spec: cannot coerce %T to %s", v.V, so)
			return c.e.freshConst("bad", so)
		}
	}
	if t.So == so {
		return t
	}
	if t.So == "IntLit" {
		k, _ := strconv.ParseInt(t.S, 10, 64)
		if so.IsBV() {
			return BVLit(uint64(k), so.BVWidth())
		}
		if so == SInt {
			return IntLit(k)
		}
	}
	if t.So == "NilLit" {
		return NilOf(so)
	}
	if t.So == "AnyLit" {
		return c.e.freshConst(t.S, so) // an arbitrary value of whatever sort the context expects
	}
	c.e.fail("spec: sort mismatch %s vs %s (%s)", t.So, so, t.S)
	return c.e.freshConst("bad", so)
}

// unify two operands to a common sort.
func (c *SpecCtx) unify(a, b SV) (T, T, types.Type) {
	at, aok := a.V.(T)
	bt, bok := b.V.(T)
	if !aok {
		at = c.coerceScalar(a)
	}
	if !bok {
		bt = c.coerceScalar(b)
	}
	isLit := func(t T) bool { return t.So == "IntLit" || t.So == "NilLit" || t.So == "AnyLit" }
	switch {
	case isLit(at) && isLit(bt):
		if at.So == "AnyLit" || bt.So == "AnyLit" {
			so := SAny
			if at.So == "IntLit" || bt.So == "IntLit" {
				so = SInt
			}
			return c.coerceTo(SV{V: at}, so), c.coerceTo(SV{V: bt}, so), nil
		}
		if at.So == "IntLit" {
			return c.coerceTo(SV{V: at}, SInt), c.coerceTo(SV{V: bt}, SInt), nil
		}
		return NilOf(SAny), NilOf(SAny), nil
	case isLit(at):
		return c.coerceTo(SV{V: at}, bt.So), bt, b.T
	case isLit(bt):
		return at, c.coerceTo(SV{V: bt}, at.So), a.T
	}
	ty := a.T
	if ty == nil {
		ty = b.T
	}
	if at.So != bt.So {
		// Int vs BV mixing: lift BV to Int
		if at.So == SInt && bt.So.IsBV() {
			r := &Run{e: c.e}
			if b.T != nil {
				return at, r.toInt(bt, b.T), nil
			}
			return at, App(SInt, "bv2nat", bt), nil
		}
		if bt.So == SInt && at.So.IsBV() {
			r := &Run{e: c.e}
			if a.T != nil {
				return r.toInt(at, a.T), bt, nil
			}
			return App(SInt, "bv2nat", at), bt, nil
		}
		c.e.fail("spec: operands of different sorts %s / %s (%s vs %s)", at.So, bt.So, at.S, bt.S)
	}
	return at, bt, ty
}

func (c *SpecCtx) coerceScalar(v SV) T {
	switch x := v.V.(type) {
	case T:
		return x
	case *Closure:
		return x.Term
	case *BoundMethod:
		return x.Term
	case *Addr:
		return c.e.addrTerm(x)
	}
	c.e.fail("spec: scalar expected, got %T", v.V)
	return c.e.freshConst("bad", SAny)
}

func (c *SpecCtx) binary(n *ast.BinaryExpr) SV {
	switch n.Op {
	case token.LAND:
		return SV{V: And(c.boolTerm(n.X), c.boolTerm(n.Y))}
	case token.LOR:
		return SV{V: Or(c.boolTerm(n.X), c.boolTerm(n.Y))}
	}
	a := c.eval(n.X)
	b := c.eval(n.Y)
	if n.Op == token.EQL || n.Op == token.NEQ {
		var eq T
		asl, aIsSl := a.V.(*SliceV)
		bsl, bIsSl := b.V.(*SliceV)
		switch {
		case aIsSl && !bIsSl:
			eq = asl.Nil
		case bIsSl && !aIsSl:
			eq = bsl.Nil
		case aIsSl && bIsSl:
			// extensional slice equality
			i := T{"j!", SInt}
			eq = And(Eq(asl.Len, bsl.Len), Forall([]T{i}, nil,
				Implies(And(App(SBool, "<=", IntLit(0), i), App(SBool, "<", i, asl.Len)), Eq(asl.at(i), bsl.at(i)))))
		default:
			if as, ok := a.V.(*StructV); ok {
				if bs, ok := b.V.(*StructV); ok {
					eq = c.e.valEq(c.st, as, bs, a.T)
					break
				}
			}
			x, y, _ := c.unify(a, b)
			eq = Eq(x, y)
		}
		if n.Op == token.NEQ {
			eq = Not(eq)
		}
		return SV{V: eq}
	}
	x, y, ty := c.unify(a, b)
	uns := ty != nil && isUnsigned(ty)
	if x.So.IsBV() {
		op := map[token.Token][2]string{
			token.ADD: {"bvadd", "bvadd"}, token.SUB: {"bvsub", "bvsub"}, token.MUL: {"bvmul", "bvmul"},
			token.LSS: {"bvslt", "bvult"}, token.LEQ: {"bvsle", "bvule"}, token.GTR: {"bvsgt", "bvugt"}, token.GEQ: {"bvsge", "bvuge"},
			token.AND: {"bvand", "bvand"}, token.OR: {"bvor", "bvor"}, token.XOR: {"bvxor", "bvxor"},
			token.SHL: {"bvshl", "bvshl"}, token.SHR: {"bvashr", "bvlshr"},
			token.QUO: {"bvsdiv", "bvudiv"}, token.REM: {"bvsrem", "bvurem"},
		}[n.Op]
		if op[0] == "" {
			return c.bad("bv operator %s", n.Op)
		}
		name := op[0]
		if uns {
			name = op[1]
		}
		switch n.Op {
		case token.LSS, token.LEQ, token.GTR, token.GEQ:
			return SV{V: App(SBool, name, x, y)}
		}
		return SV{V: App(x.So, name, x, y), T: ty}
	}
	switch n.Op {
	case token.ADD:
		return SV{V: App(SInt, "+", x, y), T: ty}
	case token.SUB:
		return SV{V: App(SInt, "-", x, y), T: ty}
	case token.MUL:
		return SV{V: App(SInt, "*", x, y), T: ty}
	case token.QUO:
		return SV{V: App(SInt, "div", x, y), T: ty}
	case token.REM:
		return SV{V: App(SInt, "mod", x, y), T: ty}
	case token.LSS:
		return SV{V: App(SBool, "<", x, y)}
	case token.LEQ:
		return SV{V: App(SBool, "<=", x, y)}
	case token.GTR:
		return SV{V: App(SBool, ">", x, y)}
	case token.GEQ:
		return SV{V: App(SBool, ">=", x, y)}
	}
	return c.bad("operator %s", n.Op)
}

func (c *SpecCtx) ident(name string) SV {
	e := c.e
	switch name {
	case "true":
		return SV{V: True}
	case "false":
		return SV{V: False}
	case "nil":
		return SV{V: T{"nil", "NilLit"}}
	case "MaxInt32":
		return SV{V: T{"2147483647", "IntLit"}}
	case "MaxInt64":
		return SV{V: T{"9223372036854775807", "IntLit"}}
	}
	if c.inOld {
		if v, ok := c.oldVars[name]; ok {
			return v
		}
	}
	if c.fr != nil && strings.Contains(name, "__") {
		// name__k: the k-th declaration of a local called name in this function
		i := strings.LastIndex(name, "__")
		if k, err := strconv.Atoi(name[i+2:]); err == nil {
			if lst := c.fr.CellsAll[name[:i]]; k < len(lst) && lst[k] != nil {
				return SV{V: c.st.Cells[lst[k]], T: lst[k].Typ}
			}
			return c.bad("no declaration #%d of local %s on this path", k, name[:i])
		}
	}
	if c.fr != nil && strings.Contains(name, "_") {
		// hidden SSA locals such as rangeint.iter are written rangeint_iter in specs
		if _, ok := c.fr.Cells[name]; !ok {
			if cell, ok := c.fr.Cells[strings.ReplaceAll(name, "_", ".")]; ok {
				return SV{V: c.st.Cells[cell], T: cell.Typ}
			}
		}
	}
	if c.inLoop && c.fr != nil && !c.inOld {
		if cell, ok := c.fr.Cells[name]; ok {
			return SV{V: c.st.Cells[cell], T: cell.Typ}
		}
	}
	if v, ok := c.vars[name]; ok {
		return v
	}
	if v, ok := c.entry[name]; ok {
		return v
	}
	if c.inOld && c.fr != nil {
		// captured variable of a closure analysed on its own: its value at entry
		if cell, ok := c.fr.Cells[name]; ok {
			if v, ok := c.st.Entry["fv:"+name]; ok {
				return SV{V: v, T: cell.Typ}
			}
		}
	}
	if c.fr != nil && !c.inOld {
		if cell, ok := c.fr.Cells[name]; ok {
			return SV{V: c.st.Cells[cell], T: cell.Typ}
		}
	}
	// the hidden counter of a map range statement that has not started on this path
	if c.fr != nil && strings.HasPrefix(name, "mapiter") {
		if _, err := strconv.Atoi(strings.TrimPrefix(name, "mapiter")); err == nil {
			return SV{V: IntLit(0), T: types.Typ[types.Int]}
		}
	}
	// a local of this function that has not been declared on this path: its zero value
	if c.fr != nil {
		for _, b := range c.fr.Fn.Blocks {
			for _, in := range b.Instrs {
				if al, ok := in.(*ssa.Alloc); ok && al.Comment == name {
					et := al.Type().(*types.Pointer).Elem()
					if _, isStruct := et.Underlying().(*types.Struct); !isStruct || !isObjectStruct(et) {
						return SV{V: e.zeroVal(c.st, et), T: et}
					}
				}
			}
		}
	}
	// package-level variables / constants
	if m, ok := e.pkg.Members[name]; ok {
		switch g := m.(type) {
		case *ssa.Global:
			r := &Run{e: e}
			return SV{V: r.loadGlobal(c.st, g), T: g.Type().(*types.Pointer).Elem()}
		case *ssa.NamedConst:
			return SV{V: e.constVal(c.st, g.Value), T: g.Type()}
		case *ssa.Function:
			return SV{V: e.funcValue(g, nil), T: g.Type()}
		}
	}
	return c.bad("unknown identifier %q", name)
}

func (c *SpecCtx) selector(n *ast.SelectorExpr) SV {
	e := c.e
	if id, ok := n.X.(*ast.Ident); ok && id.Name == "math" {
		return c.ident(n.Sel.Name)
	}
	xv := c.eval(n.X)
	if sv, ok := xv.V.(*StructV); ok {
		for i := 0; i < sv.Typ.NumFields(); i++ {
			if sv.Typ.Field(i).Name() == n.Sel.Name {
				return SV{V: sv.F[i], T: sv.Typ.Field(i).Type()}
			}
		}
		return c.bad("no field %s", n.Sel.Name)
	}
	if xv.T == nil {
		return c.bad("selector %s on untyped value", exprString(n))
	}
	pt := xv.T
	if p, ok := pt.Underlying().(*types.Pointer); ok {
		pt = p.Elem()
	}
	s, ok := pt.Underlying().(*types.Struct)
	if !ok {
		return c.bad("selector %s on non-struct %s", exprString(n), typeKey(xv.T))
	}
	base, ok := xv.V.(T)
	if !ok {
		return c.bad("selector base %T", xv.V)
	}
	key := e.structKey(pt)
	if isOpaqueStruct(pt) && pt == xv.T && strings.HasPrefix(string(base.So), "X_") {
		// a field of an opaque (external) struct value: the same uninterpreted projection the executor uses
		for i := 0; i < s.NumFields(); i++ {
			if f := s.Field(i); f.Name() == n.Sel.Name {
				return SV{V: e.subFieldGet(c.st, pt, base, f.Name(), f.Type()), T: f.Type()}
			}
		}
	}
	for i := 0; i < s.NumFields(); i++ {
		f := s.Field(i)
		if f.Name() != n.Sel.Name {
			continue
		}
		reg := fieldRegionName(key, f.Name())
		if _, isStruct := f.Type().Underlying().(*types.Struct); isStruct && isObjectStruct(f.Type()) {
			nr := e.nestedRef(reg, base)
			e.nested[nr.S] = &NestedInfo{Owner: key, Field: f.Name(), Base: base, Typ: f.Type()}
			(&Run{e: e}).nestedDistinct(c.st, nr)
			return SV{V: nr, T: types.NewPointer(f.Type())}
		}
		v := e.readLoc(c.st, reg, f.Type(), base)
		if vt, ok := v.(T); ok {
			if _, known := e.loaded[vt.S]; !known {
				e.loaded[vt.S] = &Addr{Kind: AField, Region: reg, Ref: base, FieldT: f.Type(), FName: f.Name()}
			}
		}
		return SV{V: v, T: f.Type()}
	}
	// ghost field declared in the type block
	if tb := e.cs.Types[key]; tb != nil {
		for _, g := range tb.All("ghost") {
			if len(g.Words) >= 2 && g.Words[0] == n.Sel.Name {
				so := ghostSort(e, g.Words[1])
				return SV{V: e.regionRead(c.st, "ghost."+key+"."+n.Sel.Name, []Sort{SRef}, so, base)}
			}
		}
	}
	return c.bad("no field %s in %s", n.Sel.Name, key)
}

func ghostSort(e *Engine, w string) Sort {
	switch w {
	case "int":
		if e.bv {
			return BV(64)
		}
		return SInt
	case "bool":
		return SBool
	case "any":
		return SAny
	case "ref":
		return SRef
	case "chan":
		return SChan
	case "fn":
		return SFn
	}
	return Sort(w)
}

func (c *SpecCtx) call(n *ast.CallExpr) SV {
	e := c.e
	fn, ok := n.Fun.(*ast.Ident)
	if !ok {
		return c.bad("call of %s", exprString(n.Fun))
	}
	switch fn.Name {
	case "implies":
		return SV{V: Implies(c.boolTerm(n.Args[0]), c.boolTerm(n.Args[1]))}
	case "iff":
		return SV{V: Eq(c.boolTerm(n.Args[0]), c.boolTerm(n.Args[1]))}
	case "old":
		if c.old == nil {
			return c.eval(n.Args[0])
		}
		sub := c.sub()
		sub.inOld = true
		sub.inLoop = false
		if id, ok := n.Args[0].(*ast.Ident); ok {
			if v, ok := c.entry[id.Name]; ok {
				return v
			}
		}
		return c.withHeap(c.old, func() SV { return sub.eval(n.Args[0]) })
	case "len":
		v := c.eval(n.Args[0])
		switch x := v.V.(type) {
		case *SliceV:
			return SV{V: x.Len}
		case T:
			if v.T != nil {
				if _, ok := v.T.Underlying().(*types.Map); ok {
					return SV{V: Ite(Eq(x, NilOf(SRef)), IntLit(0), e.mapLen(c.st, e.mapLayout(v.T), x)), T: types.Typ[types.Int]} // a nil map is empty
				}
			}
		}
		return c.bad("len of %T", v.V)
	case "all", "some":
		if len(n.Args) != 4 {
			return c.bad("all/some need 4 arguments")
		}
		id, ok := n.Args[0].(*ast.Ident)
		if !ok {
			return c.bad("all: first argument must be an identifier")
		}
		lo, hi := c.intArg(n.Args[1]), c.intArg(n.Args[2])
		sub := c.sub()
		bv := T{id.Name + "!q", SInt}
		sub.vars[id.Name] = SV{V: bv, T: types.Typ[types.Int]}
		rng := And(App(SBool, "<=", lo, bv), App(SBool, "<", bv, hi))
		body := sub.boolTerm(n.Args[3])
		if fn.Name == "all" {
			return SV{V: Forall([]T{bv}, nil, Implies(rng, body))}
		}
		return SV{V: Exists([]T{bv}, And(rng, body))}
	case "forall":
		// forall(x, sort, P): unbounded quantifier over a ghost-sorted variable
		id := n.Args[0].(*ast.Ident)
		so := ghostSort(e, exprString(n.Args[1]))
		sub := c.sub()
		bv := T{id.Name + "!q", so}
		var ty types.Type
		if so == SInt {
			ty = types.Typ[types.Int]
		}
		if len(n.Args) == 4 {
			// forall(x, ref, T, P): typed reference
			ty = c.lookupType(exprString(n.Args[2]))
			sub.vars[id.Name] = SV{V: bv, T: ty}
			return SV{V: Forall([]T{bv}, nil, sub.boolTerm(n.Args[3]))}
		}
		sub.vars[id.Name] = SV{V: bv, T: ty}
		return SV{V: Forall([]T{bv}, nil, sub.boolTerm(n.Args[2]))}
	case "unchanged":
		var cs []T
		for _, a := range n.Args {
			cur := c.eval(a)
			old := c.call(&ast.CallExpr{Fun: ast.NewIdent("old"), Args: []ast.Expr{a}})
			cs = append(cs, c.sameVal(cur, old))
		}
		return SV{V: And(cs...)}
	case "min", "max":
		a, b, ty := c.unify(c.eval(n.Args[0]), c.eval(n.Args[1]))
		op := "<="
		if fn.Name == "max" {
			op = ">="
		}
		return SV{V: Ite(App(SBool, op, a, b), a, b), T: ty}
	case "ite":
		a, b, ty := c.unify(c.eval(n.Args[1]), c.eval(n.Args[2]))
		return SV{V: Ite(c.boolTerm(n.Args[0]), a, b), T: ty}
	case "held", "heldW", "heldR":
		return SV{V: c.held(n.Args[0], fn.Name)}
	case "has":
		// has(m, k): map membership
		m := c.eval(n.Args[0])
		if m.T == nil {
			return c.bad("has: untyped map")
		}
		ml := e.mapLayout(m.T)
		k := c.coerceTo(c.eval(n.Args[1]), ml.ksort)
		mt := m.V.(T)
		return SV{V: And(Not(Eq(mt, NilOf(SRef))), e.mapHas(c.st, ml, mt, k))}
	case "int":
		return SV{V: c.intArg(n.Args[0]), T: types.Typ[types.Int]}
	case "is":
		// is(x, T): dynamic type test of an interface value
		tk := sanitize(typeKey(c.lookupType(exprString(n.Args[1]))))
		x := c.coerceTo(c.eval(n.Args[0]), SAny)
		return SV{V: App(SBool, e.namedFun("is_"+tk, []Sort{SAny}, SBool), x)}
	case "as":
		// as(x, *T): the *T held in interface value x (meaningful when is(x, *T))
		ty := c.lookupType(exprString(n.Args[1]))
		if ty == nil {
			return c.bad("as: unknown type")
		}
		tk := sanitize(typeKey(ty))
		x := c.coerceTo(c.eval(n.Args[0]), SAny)
		so := e.sortOf(ty)
		return SV{V: App(so, e.namedFun("unbox_"+tk, []Sort{SAny}, so), x), T: ty}
	case "field":
		// field(x, T, f): field f of the struct of type T held in interface value x
		ty := c.lookupType(exprString(n.Args[1]))
		tk := sanitize(typeKey(ty))
		x := c.coerceTo(c.eval(n.Args[0]), SAny)
		fname := exprString(n.Args[2])
		st := ty.Underlying().(*types.Struct)
		for i := 0; i < st.NumFields(); i++ {
			if st.Field(i).Name() == fname {
				so := e.sortOf(st.Field(i).Type())
				return SV{V: App(so, e.namedFun("unbox_"+tk+"_"+fname, []Sort{SAny}, so), x), T: st.Field(i).Type()}
			}
		}
		return c.bad("field: no %s", fname)
	case "lastres":
		// lastres(f, i): i-th result of the latest call of function value f
		fv := c.eval(n.Args[0])
		f := c.coerceScalar(fv)
		i := c.intArg(n.Args[1])
		if v, ok := c.st.Ghost["res:"+f.S+":"+i.S]; ok {
			sv := SV{V: v}
			if sig, ok := fv.T.Underlying().(*types.Signature); ok {
				k, _ := strconv.Atoi(i.S)
				if k < sig.Results().Len() {
					sv.T = sig.Results().At(k).Type()
				}
			}
			return sv
		}
		if fv.T != nil {
			if sig, ok := fv.T.Underlying().(*types.Signature); ok {
				k, _ := strconv.Atoi(i.S)
				if k < sig.Results().Len() {
					pt := sig.Results().At(k).Type()
					// stable per path: remember it
					v := c.e.freshVal(c.st, pt, "nores")
					c.st.Ghost["res:"+f.S+":"+i.S] = v
					return SV{V: v, T: pt}
				}
			}
		}
		return c.bad("lastres: unknown function value")
	case "lastrand":
		if v, ok := c.st.Ghost["rand.last"]; ok {
			return SV{V: v, T: types.Typ[types.Int64]}
		}
		return SV{V: c.e.freshVal(c.st, types.Typ[types.Int64], "norand"), T: types.Typ[types.Int64]}
	case "captured":
		// captured(closure, name): current value of the variable a closure captured
		cv := c.eval(n.Args[0])
		cl, ok := cv.V.(*Closure)
		if !ok {
			if t, isT := cv.V.(T); isT {
				cl = e.closures[t.S]
			}
		}
		if cl == nil {
			// not a closure made on this path (e.g. a nil function value on this branch): an arbitrary value; clauses guard it
			return SV{V: T{"nocapture", "AnyLit"}}
		}
		name := exprString(n.Args[1])
		for i, fv := range cl.Fn.FreeVars {
			if fv.Name() == name && i < len(cl.Binds) {
				if a, ok := cl.Binds[i].(*Addr); ok && a.Kind == ACell {
					return SV{V: c.st.Cells[a.Cell], T: a.Cell.Typ}
				}
				return SV{V: cl.Binds[i], T: fv.Type()}
			}
		}
		return c.bad("captured: closure has no free variable %s", name)
	case "apre", "apost":
		// apre(k)/apost(k): value observed / left by the k-th atomic operation of this call
		k := c.intArg(n.Args[0])
		key := "atomic.pre:" + k.S
		if fn.Name == "apost" {
			key = "atomic.post:" + k.S
		}
		if v, ok := c.st.Ghost[key]; ok {
			ty := types.Type(types.Typ[types.Uint64])
			if t, ok := v.(T); ok && t.So.BVWidth() == 32 {
				ty = types.Typ[types.Int32]
			}
			return SV{V: v, T: ty}
		}
		return SV{V: c.e.freshConst("noatomic", BV(64)), T: types.Typ[types.Uint64]}
	case "atomics":
		k := 0
		fmt.Sscan(c.st.Facts["atomics"], &k)
		return SV{V: T{fmt.Sprintf("%d", k), "IntLit"}}
	case "aop":
		// aop(k): name of the k-th atomic operation ("Load", "Add", "CompareAndSwap", ...)
		k := c.intArg(n.Args[0])
		if v, ok := c.st.Ghost["atomic.op:"+k.S]; ok {
			return SV{V: v}
		}
		return SV{V: c.e.strConst("<none>")}
	case "receivedfrom":
		// receivedfrom(ch): this execution performed a receive from ch (since the last loop cut)
		ch := c.coerceTo(c.eval(n.Args[0]), SChan)
		var ds []T
		for k := range c.st.Ghost {
			if strings.HasPrefix(k, "lastrecv:") {
				ds = append(ds, Eq(ch, T{strings.TrimPrefix(k, "lastrecv:"), SChan}))
			}
		}
		sort.Slice(ds, func(i, j int) bool { return ds[i].S < ds[j].S })
		return SV{V: Or(ds...)}
	case "wgwaited":
		// wgwaited(wg): this execution has called Wait on the *sync.WaitGroup wg (since the last loop cut)
		w := c.coerceTo(c.eval(n.Args[0]), SRef)
		var ds []T
		for k := range c.st.Facts {
			if strings.HasPrefix(k, "wgwait:") {
				ds = append(ds, Eq(w, T{strings.TrimPrefix(k, "wgwait:"), SRef}))
			}
		}
		sort.Slice(ds, func(i, j int) bool { return ds[i].S < ds[j].S })
		return SV{V: Or(ds...)}
	case "timerstopped":
		// timerstopped(t): Stop has been called on this *time.Timer / *time.Ticker (ghost)
		t := c.coerceTo(c.eval(n.Args[0]), SRef)
		return SV{V: e.regionRead(c.st, "timer.stopped", []Sort{SRef}, SBool, t)}
	case "sent", "recvd":
		ch := c.coerceTo(c.eval(n.Args[0]), SChan)
		return SV{V: e.regionRead(c.st, "chan."+fn.Name, []Sort{SChan}, e.cntSort(), ch), T: types.Typ[types.Uint64]}
	case "closed":
		ch := c.coerceTo(c.eval(n.Args[0]), SChan)
		return SV{V: e.regionRead(c.st, "chan.closed", []Sort{SChan}, SBool, ch)}
	case "inv":
		// inv(x.mutex): conjunction of the monitor invariants declared for that lock
		v := c.eval(n.Args[0])
		key, ok := v.V.(T)
		if !ok {
			return c.bad("inv: not a lock expression")
		}
		r := &Run{e: e}
		lr := r.lockOf(c.st, key)
		if lr.Class == "" {
			return c.bad("inv: unknown lock")
		}
		tb := e.cs.Types[lr.Owner]
		if tb == nil {
			return SV{V: True}
		}
		t := r.typeOfOwner(lr.Owner)
		var cs []T
		for _, cl := range tb.All("inv") {
			if len(cl.Words) < 1 || cl.Words[0] != lr.Field {
				continue
			}
			x, err := parseSpec(cl.Expr)
			if err != nil {
				return c.bad("%v", err)
			}
			sub := c.sub()
			sub.vars[tb.Self] = SV{V: lr.Base, T: types.NewPointer(t)}
			cs = append(cs, sub.boolTerm(x))
		}
		return SV{V: And(cs...)}
	case "lastsent", "lastrecv":
		// lastsent(ch)/lastrecv(ch): the value most recently sent to / received from ch on this path
		ch := c.coerceTo(c.eval(n.Args[0]), SChan)
		chv := c.eval(n.Args[0])
		var et types.Type
		if chv.T != nil {
			if ct, ok := coreType(chv.T).(*types.Chan); ok {
				et = ct.Elem()
			}
		}
		if v, ok := c.st.Ghost[fn.Name+":"+ch.S]; ok {
			return SV{V: v, T: et}
		}
		if et != nil {
			return SV{V: e.freshVal(c.st, et, "no"+fn.Name), T: et}
		}
		return SV{V: e.freshConst("no"+fn.Name, SAny)}
	case "wgn":
		// wgn(wg): ghost counter of a *sync.WaitGroup
		v := c.coerceTo(c.eval(n.Args[0]), SRef)
		return SV{V: e.regionRead(c.st, "wg.n", []Sort{SRef}, SInt, v), T: types.Typ[types.Int]}
	case "boundrecv":
		// boundrecv(f): receiver of a bound method value created in this function
		v := c.eval(n.Args[0])
		var bm *BoundMethod
		switch x := v.V.(type) {
		case *BoundMethod:
			bm = x
		case T:
			bm = e.methods[x.S]
		}
		if bm == nil {
			return c.bad("boundrecv: not a bound method value")
		}
		return SV{V: bm.Recv}
	case "box":
		// box(x): x converted to an interface value (x must have a static type: a parameter, local or field)
		v := c.eval(n.Args[0])
		if v.T == nil {
			return c.bad("box: operand without static type")
		}
		return SV{V: e.box(c.st, v.V, v.T)}
	case "closurename":
		// closurename(f): name of the function literal a closure value was made from ("F$1"), or "<not a closure>"
		v := c.eval(n.Args[0])
		var cl *Closure
		switch x := v.V.(type) {
		case *Closure:
			cl = x
		case T:
			cl = e.closures[x.S]
		}
		if cl == nil {
			return SV{V: e.strConst("<not a closure>")}
		}
		return SV{V: e.strConst(e.fnName[cl.Fn])}
	case "boundname":
		v := c.eval(n.Args[0])
		var bm *BoundMethod
		switch x := v.V.(type) {
		case *BoundMethod:
			bm = x
		case T:
			bm = e.methods[x.S]
		}
		if bm == nil {
			return SV{V: e.strConst("<not a bound method>")}
		}
		return SV{V: e.strConst(bm.Name)}
	case "chancap":
		ch := c.coerceTo(c.eval(n.Args[0]), SChan)
		return SV{V: e.regionRead(c.st, "chan.cap", []Sort{SChan}, SInt, ch), T: types.Typ[types.Int]}
	case "mapkey", "mapidx":
		// mapkey(N, i) / mapidx(N, k): the ghost enumeration of the N-th map range statement of this function
		if c.fr == nil {
			return c.bad("%s outside a function body", fn.Name)
		}
		nn := c.intArg(n.Args[0])
		it, _ := c.st.Ghost[fmt.Sprintf("mapiter:%s:%s", e.fnName[c.fr.Fn], nn.S)].(*MapIter)
		if it == nil {
			return c.bad("%s: no map range #%s executed on this path", fn.Name, nn.S)
		}
		if fn.Name == "mapkey" {
			return SV{V: App(it.ML.ksort, it.RKey, c.intArg(n.Args[1])), T: it.ML.mt.Key()}
		}
		return SV{V: App(SInt, it.RIdx, c.coerceTo(c.eval(n.Args[1]), it.ML.ksort)), T: types.Typ[types.Int]}
	case "condlock":
		// condlock(c): the Locker (as a lock identity) of a *sync.Cond
		cv := c.coerceTo(c.eval(n.Args[0]), SRef)
		return SV{V: e.condLocker(c.st, cv)}
	case "heldcond":
		// heldcond(cond): the Locker of this *sync.Cond is in the lockset
		cv := c.coerceTo(c.eval(n.Args[0]), SRef)
		key := e.condLocker(c.st, cv)
		var ds []T
		for _, l := range c.st.Locks {
			ds = append(ds, Eq(l.Key, key))
		}
		return SV{V: Or(ds...)}
	case "calledsince":
		// calledsince("(*T).M"): that function (with a contract) was called after the latest channel receive on this path
		if _, ok := c.st.Ghost["called:"+c.strArg(n.Args[0])]; ok {
			return SV{V: True}
		}
		return SV{V: False}
	case "icalls":
		// icalls("(Iface).Method"): calls of that interface method so far on this path (since the last loop cut: a lower bound before it)
		name := c.strArg(n.Args[0])
		if t, ok := c.st.Counters["calls:"+name]; ok {
			return SV{V: t, T: types.Typ[types.Int]}
		}
		return SV{V: IntLit(0), T: types.Typ[types.Int]}
	case "ilast":
		// ilast("(Iface).Method", i): i-th result of the latest call of that interface method on this path
		name := c.strArg(n.Args[0])
		i := c.intArg(n.Args[1])
		if v, ok := c.st.Ghost["ires:"+name+":"+i.S]; ok {
			sv := SV{V: v}
			if f := e.funcs[name]; f != nil {
				if k, err := strconv.Atoi(i.S); err == nil && k < f.Signature.Results().Len() {
					sv.T = f.Signature.Results().At(k).Type()
				}
			}
			return sv
		}
		// not called on this path: an arbitrary placeholder that adapts to the expected sort (clauses must guard it)
		return SV{V: T{"noicall", "AnyLit"}}
	case "atentry":
		// atentry(N, x): value of local x when loop N of this function was entered (on this path)
		if c.fr == nil {
			return c.bad("atentry outside a function")
		}
		nn := c.intArg(n.Args[0])
		snap, _ := c.st.Ghost[fmt.Sprintf("loopsnap:%s:%s", e.fnName[c.fr.Fn], nn.S)].(map[string]Val)
		id, ok := n.Args[1].(*ast.Ident)
		if snap == nil || !ok {
			return c.bad("atentry: loop %s not entered on this path", nn.S)
		}
		v, ok := snap[id.Name]
		if !ok {
			return c.bad("atentry: no local %s at loop entry", id.Name)
		}
		var ty types.Type
		if cell, ok := c.fr.Cells[id.Name]; ok {
			ty = cell.Typ
		}
		return SV{V: v, T: ty}
	case "ctxdone":
		// ctxdone(ctx): the channel ctx.Done() returns
		x := c.coerceTo(c.eval(n.Args[0]), SAny)
		ch := App(SChan, e.namedFun("ctxdone", []Sort{SAny}, SChan), x)
		e.doneOf[ch.S] = x
		return SV{V: ch}
	case "athead":
		// athead(N, x): value of local x at the head of loop N when the current iteration started
		if c.fr == nil {
			return c.bad("athead outside a function")
		}
		nn := c.intArg(n.Args[0])
		snap, _ := c.st.Ghost[fmt.Sprintf("loophead:%s:%s", e.fnName[c.fr.Fn], nn.S)].(map[string]Val)
		id, ok := n.Args[1].(*ast.Ident)
		if snap == nil || !ok {
			return c.bad("athead: loop %s not entered on this path", nn.S)
		}
		v, ok := snap[id.Name]
		if !ok {
			return c.bad("athead: no local %s at the loop head", id.Name)
		}
		var ty types.Type
		if cell, ok := c.fr.Cells[id.Name]; ok {
			ty = cell.Typ
		}
		return SV{V: v, T: ty}
	case "now":
		// now(x): the current value of a parameter or local (parameters otherwise denote their entry values)
		sub := c.sub()
		sub.inLoop = true
		return sub.eval(n.Args[0])
	case "nevercancelled":
		// nevercancelled(x): x was produced by context.WithoutCancel / Background on this path
		x := c.coerceTo(c.eval(n.Args[0]), SAny)
		if _, ok := c.st.Ghost["ctxnever:"+x.S]; ok {
			return SV{V: True}
		}
		return SV{V: False}
	case "ctxvalues":
		x := c.coerceTo(c.eval(n.Args[0]), SAny)
		r := &Run{e: e}
		return SV{V: r.ctxValues(x)}
	case "heldnone":
		if len(c.st.Locks) == 0 {
			return SV{V: True}
		}
		return SV{V: False}
	case "nolocks":
		if len(c.st.Locks) == 0 {
			return SV{V: True}
		}
		return SV{V: False}
	case "panicking":
		if c.st.Panicking {
			return SV{V: True}
		}
		return SV{V: False}
	case "spawned":
		// spawned("name"): number of `go` statements executed so far on this path for that body
		v := c.coerceTo(c.eval(n.Args[0]), SStr)
		return SV{V: e.regionRead(c.st, "cnt:go", []Sort{SStr}, SInt, v), T: types.Typ[types.Int]}
	case "oncedone":
		// oncedone(x.once): has this sync.Once fired
		v := c.coerceTo(c.eval(n.Args[0]), SRef)
		return SV{V: e.regionRead(c.st, "once.done", []Sort{SRef}, SBool, v)}
	case "iface":
		// iface(v): the interface value a reflect.Value holds
		v := c.coerceScalar(c.eval(n.Args[0]))
		return SV{V: App(SAny, e.namedFun("rv_iface", []Sort{v.So}, SAny), v)}
	case "lasterr":
		// lasterr(ctx): what the most recent ctx.Err() on this path (since the last loop cut) returned
		x := c.coerceTo(c.eval(n.Args[0]), SAny)
		if v, ok := c.st.Ghost["ctxerr.last:"+x.S]; ok {
			return SV{V: v}
		}
		return SV{V: c.e.freshConst("noerrcheck", SAny)}
	case "cancelled":
		x := c.coerceTo(c.eval(n.Args[0]), SAny)
		r := &Run{e: e}
		return SV{V: r.cancelled(c.st, x)}
	case "calls":
		// calls(f): number of calls of the function value f made so far on this path
		f := c.coerceTo(c.eval(n.Args[0]), SFn)
		return SV{V: e.regionRead(c.st, "cnt.calls", []Sort{SFn}, SInt, f), T: types.Typ[types.Int]}
	case "lastarg":
		// lastarg(f, i): i-th argument of the latest call of f
		fv := c.eval(n.Args[0])
		f := c.coerceScalar(fv)
		i := c.intArg(n.Args[1])
		if _, ok := c.st.Ghost["arg:"+f.S+":"+i.S]; !ok && fv.T != nil {
			// not called on this path: an arbitrary value of the parameter type (the clause must guard it)
			if sig, ok := fv.T.Underlying().(*types.Signature); ok {
				k, _ := strconv.Atoi(i.S)
				if k < sig.Params().Len() {
					pt := sig.Params().At(k).Type()
					v := c.e.freshVal(c.st, pt, "nocall")
					sv := SV{V: v, T: pt}
					return sv
				}
			}
		}
		if v, ok := c.st.Ghost["arg:"+f.S+":"+i.S]; ok {
			sv := SV{V: v}
			if st, ok := v.(*StructV); ok {
				sv.T = st.Typ
			}
			if sig, ok := fv.T.Underlying().(*types.Signature); ok && fv.T != nil {
				k, _ := strconv.Atoi(i.S)
				if k < sig.Params().Len() {
					sv.T = sig.Params().At(k).Type()
				}
			}
			return sv
		}
		return c.bad("lastarg: %s was not called on this path", f.S)
	case "u32", "u64", "i32", "i64":
		w := map[string]int{"u32": 32, "u64": 64, "i32": 32, "i64": 64}[fn.Name]
		v := c.eval(n.Args[0])
		t := v.V.(T)
		ty := map[string]types.Type{"u32": types.Typ[types.Uint32], "u64": types.Typ[types.Uint64], "i32": types.Typ[types.Int32], "i64": types.Typ[types.Int64]}[fn.Name]
		if !e.bv {
			return SV{V: c.intArg(n.Args[0]), T: ty}
		}
		if t.So == "IntLit" || t.So == "AnyLit" {
			return SV{V: c.coerceTo(v, BV(w)), T: ty}
		}
		if t.So.IsBV() {
			fw := t.So.BVWidth()
			switch {
			case fw == w:
				return SV{V: t, T: ty}
			case fw > w:
				return SV{V: App(BV(w), fmt.Sprintf("(_ extract %d 0)", w-1), t), T: ty}
			default:
				ext := "zero_extend"
				if v.T != nil && !isUnsigned(v.T) {
					ext = "sign_extend"
				}
				return SV{V: App(BV(w), fmt.Sprintf("(_ %s %d)", ext, w-fw), t), T: ty}
			}
		}
		if t.So == SInt {
			return SV{V: App(BV(w), fmt.Sprintf("(_ int2bv %d)", w), t), T: ty}
		}
		return c.bad("%s of non-bv", fn.Name)
	case "hi32":
		t := c.term(n.Args[0])
		return SV{V: App(BV(32), "(_ extract 63 32)", t), T: types.Typ[types.Uint32]}
	case "lo32":
		t := c.term(n.Args[0])
		return SV{V: App(BV(32), "(_ extract 31 0)", t), T: types.Typ[types.Uint32]}
	}
	// the uninterpreted functions of the reflect specification
	if so, ok := reflectUF[fn.Name]; ok {
		var args []T
		var sorts []Sort
		for i, a := range n.Args {
			var t T
			if i < len(so.args) && so.args[i] == SInt {
				t = c.intArg(a)
			} else if i < len(so.args) {
				t = c.coerceTo(c.eval(a), so.args[i])
			} else {
				t = c.coerceScalar(c.eval(a))
			}
			args = append(args, t)
			sorts = append(sorts, t.So)
		}
		return SV{V: App(so.res, e.namedFun(fn.Name, sorts, so.res), args...)}
	}
	if fn.Name == "rnilable" {
		k := c.intArg(n.Args[0])
		var ds []T
		for _, kk := range []int64{18, 19, 20, 21, 22, 23, 26} {
			ds = append(ds, Eq(k, IntLit(kk)))
		}
		return SV{V: Or(ds...)}
	}
	// definitions and ghosts from type blocks
	if d := e.specDefs[fn.Name]; d != nil {
		return c.applyDef(d, n)
	}
	if g := e.ghostFns[fn.Name]; g != nil {
		return c.applyGhost(g, n)
	}
	return c.bad("unknown spec function %s", fn.Name)
}

func (c *SpecCtx) lookupType(name string) types.Type {
	ptr := false
	if strings.HasPrefix(name, "*") {
		ptr = true
		name = name[1:]
	}
	obj := c.e.pkg.Pkg.Scope().Lookup(name)
	if obj == nil {
		c.e.fail("spec: unknown type %s", name)
		return nil
	}
	if ptr {
		return types.NewPointer(obj.Type())
	}
	return obj.Type()
}

func (c *SpecCtx) sameVal(a, b SV) T {
	switch x := a.V.(type) {
	case *SliceV:
		y, ok := b.V.(*SliceV)
		if !ok {
			return False
		}
		i := T{"j!", SInt}
		return And(Eq(x.Len, y.Len), Eq(x.Nil, y.Nil), Forall([]T{i}, nil,
			Implies(And(App(SBool, "<=", IntLit(0), i), App(SBool, "<", i, x.Len)), Eq(x.at(i), y.at(i)))))
	case *StructV:
		if y, ok := b.V.(*StructV); ok {
			return c.e.valEq(c.st, x, y, a.T)
		}
	}
	p, q, _ := c.unify(a, b)
	return Eq(p, q)
}

func (c *SpecCtx) strArg(x ast.Expr) string {
	if bl, ok := x.(*ast.BasicLit); ok && bl.Kind == token.STRING {
		s, _ := strconv.Unquote(bl.Value)
		return s
	}
	c.e.fail("spec: string literal expected")
	return ""
}

type ufSig struct {
	args []Sort
	res  Sort
}

var reflectUF = map[string]ufSig{
	"rt_kind": {[]Sort{SAny}, SInt}, "rt_numin": {[]Sort{SAny}, SInt}, "rt_numout": {[]Sort{SAny}, SInt},
	"rt_in": {[]Sort{SAny, SInt}, SAny}, "rt_out": {[]Sort{SAny, SInt}, SAny}, "rt_variadic": {[]Sort{SAny}, SBool},
	"rt_elem": {[]Sort{SAny}, SAny}, "rt_assignable": {[]Sort{SAny, SAny}, SBool}, "rt_of": {[]Sort{SAny}, SAny},
	"rt_ptrto": {[]Sort{SAny}, SAny}, "rt_chandir": {[]Sort{SAny}, SInt},
	"rv_valid": {[]Sort{"X_reflect.Value"}, SBool}, "rv_type": {[]Sort{"X_reflect.Value"}, SAny},
	"rv_isnil": {[]Sort{"X_reflect.Value"}, SBool}, "rv_canset": {[]Sort{"X_reflect.Value"}, SBool},
	"rv_iface": {[]Sort{"X_reflect.Value"}, SAny}, "rv_of": {[]Sort{SAny}, "X_reflect.Value"},
	"rv_elem":    {[]Sort{"X_reflect.Value"}, "X_reflect.Value"},
	"rv_pointer": {[]Sort{"X_reflect.Value"}, SInt},
	"rv_zero":    {[]Sort{SAny}, "X_reflect.Value"},
}

// SpecDef: `def name(params) = expr` in a type block.
type SpecDef struct {
	Name   string
	Params []string
	PTypes []string
	Body   string
}

// GhostFn: `ghost name(sorts...) sort [rigid]`.
type GhostFn struct {
	Name  string
	Args  []string
	Res   string
	Rigid bool
}

func (c *SpecCtx) applyDef(d *SpecDef, n *ast.CallExpr) SV {
	if len(n.Args) != len(d.Params) {
		return c.bad("def %s expects %d args", d.Name, len(d.Params))
	}
	sub := c.sub()
	for i, p := range d.Params {
		sub.vars[p] = c.eval(n.Args[i])
	}
	body, err := parseSpec(d.Body)
	if err != nil {
		return c.bad("%v", err)
	}
	return sub.eval(body)
}

func (c *SpecCtx) applyGhost(g *GhostFn, n *ast.CallExpr) SV {
	e := c.e
	if len(n.Args) != len(g.Args) {
		return c.bad("ghost %s expects %d args", g.Name, len(g.Args))
	}
	var args []T
	var sorts []Sort
	for i, a := range n.Args {
		so := ghostSort(e, g.Args[i])
		sorts = append(sorts, so)
		if so == SInt {
			args = append(args, c.intArg(a))
		} else {
			args = append(args, c.coerceTo(c.eval(a), so))
		}
	}
	res := ghostSort(e, g.Res)
	if g.Rigid {
		fn := e.namedFun("ghost_"+g.Name, sorts, res)
		return SV{V: App(res, fn, args...)}
	}
	return SV{V: e.regionRead(c.st, "ghost."+g.Name, sorts, res, args...)}
}

// held(x.mutex): is the lock in the current lockset (any mode for held, exclusive for heldW).
func (c *SpecCtx) held(x ast.Expr, kind string) T {
	v := c.eval(x)
	key, ok := v.V.(T)
	if !ok {
		return False
	}
	if v.T != nil && v.T.String() == "*sync.Cond" {
		// a cond used as a lock class stands for its Locker
		key = c.e.condLocker(c.st, key)
	}
	var ds []T
	for _, l := range c.st.Locks {
		if kind == "heldW" && l.Mode != LockW {
			continue
		}
		if kind == "heldR" && l.Mode != LockR {
			continue
		}
		ds = append(ds, Eq(l.Key, key))
	}
	return Or(ds...)
}
