package main

import (
	"go/token"
	"fmt"
	"go/types"
	"strings"

	"golang.org/x/tools/go/ssa"
)

// ---------------------------------------------------------------------------------------------
// Lock identification

type LockRef struct {
	Class string // "Buffer.mutex", "" if unknown
	Owner string
	Field string
	Base  T
	Key   T
}

// lockOf identifies the mutex a *sync.Mutex / *sync.RWMutex receiver value denotes.
func (r *Run) lockOf(st *State, recv Val) LockRef {
	e := r.e
	key := e.asTerm(recv, SRef)
	if ni, ok := e.nested[key.S]; ok {
		return LockRef{Class: ni.Owner + "." + ni.Field, Owner: ni.Owner, Field: ni.Field, Base: ni.Base, Key: key}
	}
	if a, ok := e.loaded[key.S]; ok {
		owner := strings.SplitN(a.Region, ".", 2)
		if len(owner) == 2 {
			return LockRef{Class: a.Region, Owner: owner[0], Field: owner[1], Base: a.Ref, Key: key}
		}
	}
	return LockRef{Key: key}
}

// guardInfo: how a field of a struct type is protected, according to the type block.
type guardInfo struct {
	Kind  string   // guard | frozen | atomic | owned | ""
	Locks []string // lock field names (for guard; len 2 for `a & b`)
	Extra string
}

func (e *Engine) guardOf(owner, field string) guardInfo {
	tb := e.cs.Types[owner]
	if tb == nil {
		return guardInfo{}
	}
	for _, cl := range tb.Clauses {
		switch cl.Kind {
		case "guard":
			for _, f := range strings.Fields(cl.Expr) {
				if f == field {
					var locks []string
					for _, w := range cl.Words {
						if w != "&" {
							locks = append(locks, w)
						}
					}
					return guardInfo{Kind: "guard", Locks: locks}
				}
			}
		case "guardmap":
			for _, f := range strings.Fields(cl.Expr) {
				if f+"[]" == field {
					var locks []string
					for _, w := range cl.Words {
						if w != "&" {
							locks = append(locks, w)
						}
					}
					return guardInfo{Kind: "guard", Locks: locks}
				}
			}
		case "frozen", "atomic", "racy", "owned":
			for _, f := range strings.Fields(cl.Expr) {
				if f == field {
					return guardInfo{Kind: cl.Kind, Extra: strings.Join(cl.Words, " ")}
				}
			}
		}
	}
	return guardInfo{}
}

// lockKeyOf computes the identity term of lock field `lock` of object base (type owner).
func (r *Run) lockKeyOf(st *State, ownerT types.Type, owner, lock string, base T) (T, bool) {
	e := r.e
	s, ok := ownerT.Underlying().(*types.Struct)
	if !ok {
		return T{}, false
	}
	for i := 0; i < s.NumFields(); i++ {
		f := s.Field(i)
		if f.Name() != lock {
			continue
		}
		reg := fieldRegionName(owner, lock)
		if _, isStruct := f.Type().Underlying().(*types.Struct); isStruct {
			return e.nestedRef(reg, base), true
		}
		v := e.readLoc(st, reg, f.Type(), base)
		if f.Type().String() == "*sync.Cond" {
			// a cond stands for its Locker
			return e.condLocker(st, v.(T)), true
		}
		return e.asTerm(v, SRef), true
	}
	return T{}, false
}

func (e *Engine) condLocker(st *State, cond T) T {
	fn := e.namedFun("condL", []Sort{SRef}, SRef)
	return App(SRef, fn, cond)
}

func (r *Run) accessOrdinal(fr *Frame, in ssa.Instruction, region string) int {
	// ordinal among accesses to the same field in this function
	e := r.e
	n := 0
	for _, b := range fr.Fn.Blocks {
		for _, i := range b.Instrs {
			var addr ssa.Value
			switch x := i.(type) {
			case *ssa.Store:
				addr = x.Addr
			case *ssa.UnOp:
				addr = x.X
			default:
				continue
			}
			if fa, ok := addr.(*ssa.FieldAddr); ok {
				pt := fa.X.Type().Underlying().(*types.Pointer).Elem()
				f := pt.Underlying().(*types.Struct).Field(fa.Field)
				if fieldRegionName(e.structKey(pt), f.Name()) == region {
					if i == in {
						return n
					}
					n++
				}
			}
		}
	}
	return n
}

// accessCheck emits the lockset / ownership obligation for one field access.
func (r *Run) accessCheck(st *State, fr *Frame, a *Addr, write bool, in ssa.Instruction) {
	e := r.e
	parts := strings.SplitN(a.Region, ".", 2)
	if len(parts) != 2 {
		return
	}
	owner, field := parts[0], parts[1]
	gi := e.guardOf(owner, field)
	if gi.Kind == "" || gi.Kind == "atomic" || gi.Kind == "racy" {
		return
	}
	if r.isFresh(st, a.Ref) {
		return // object not yet shared
	}
	if e.initFuncs[e.fnName[fr.Fn]] {
		return
	}
	if !write {
		if b := e.cs.Funcs[e.fnName[fr.Fn]]; b != nil {
			for _, cl := range b.All("reads-owned") {
				for _, w := range cl.Words {
					if w == field || w == owner+"."+field {
						e.note("ownership: %s reads %s without the lock: %s", e.fnName[fr.Fn], a.Region, cl.Expr)
						return
					}
				}
			}
		}
	}
	if write && e.readOwned(owner, field) {
		// some function reads this field without the lock under an ownership argument: every writer states
		// (and proves at the store) the condition under which that reader cannot be running
		var wc *Clause
		if b := e.cs.Funcs[e.fnName[fr.Fn]]; b != nil {
			for _, cl := range b.All("write-when") {
				for _, w := range cl.Words {
					if w == field || w == owner+"."+field {
						wc = cl
					}
				}
			}
		}
		name := fmt.Sprintf("%s/own-write:%s", e.fnName[fr.Fn], field)
		if wc == nil {
			e.emitWith(st, name, "", nil, False, "write of "+a.Region+", which is read without the lock under an ownership argument (reads-owned), has no write-when clause", e.posOf(in), []string{"C11"}, nil)
		} else {
			c := e.specCtx(st, fr)
			c.inLoop = true
			x, err := parseSpec(wc.Expr)
			if err != nil {
				e.fail("%v", err)
			} else {
				e.emitWith(st, name, "", nil, c.boolTerm(x), "write of "+a.Region+" only when its unlocked readers cannot run: "+wc.Expr, e.posOf(in), ownProps(wc, e.cs.Funcs[e.fnName[fr.Fn]]), wc)
			}
		}
	}
	rw := "r"
	if write {
		rw = "w"
	}
	switch gi.Kind {
	case "frozen":
		if !write {
			return
		}
		name := fmt.Sprintf("%s/own:%s", e.fnName[fr.Fn], field)
		// `init-once LOCK : fields…` — lazy initialisation of a frozen field of a shared object: allowed with LOCK held
		// exclusively while the field still has its zero value (set once, never replaced)
		if b := e.cs.Funcs[e.fnName[fr.Fn]]; b != nil {
			for _, cl := range b.All("init-once") {
				named := false
				fieldsPart, condPart := cl.Expr, ""
				if i := strings.Index(cl.Expr, "|"); i >= 0 {
					// `init-once LOCK : fields | cond` — cond (evaluated before the store) replaces "the field is still unset"
					fieldsPart, condPart = cl.Expr[:i], strings.TrimSpace(cl.Expr[i+1:])
				}
				for _, w := range strings.Fields(fieldsPart) {
					if w == field {
						named = true
					}
				}
				if !named || len(cl.Words) < 1 {
					continue
				}
				var ownerT types.Type
				if a.Owner != nil {
					ownerT = a.Owner
				} else if obj := e.pkg.Pkg.Scope().Lookup(owner); obj != nil {
					ownerT = obj.Type()
				}
				goal := False
				if ownerT != nil {
					if key, ok := r.lockKeyOf(st, ownerT, owner, cl.Words[0], a.Ref); ok {
						var ds []T
						for _, l := range st.Locks {
							if l.Mode == LockW {
								ds = append(ds, Eq(l.Key, key))
							}
						}
						cur, ok1 := e.readLoc(st, a.Region, a.FieldT, a.Ref).(T)
						zero, ok2 := e.zeroVal(st, a.FieldT).(T)
						if condPart != "" {
							if x, err := parseSpec(condPart); err != nil {
								e.fail("%v", err)
							} else if len(ds) > 0 {
								c := e.specCtx(st, fr)
								c.inLoop = true
								goal = And(Or(ds...), c.boolTerm(x))
							}
						} else if ok1 && ok2 && len(ds) > 0 {
							goal = And(Or(ds...), Eq(cur, zero))
						}
					}
				}
				e.emitWith(st, name, "", nil, goal, "lazy initialisation of frozen field "+a.Region+": "+cl.Words[0]+" held exclusively and the field still unset", e.posOf(in), []string{"C11"}, cl)
				return
			}
		}
		e.emitWith(st, name, "", nil, False, "write to frozen field "+a.Region+" only before the object is shared", e.posOf(in), []string{"C11"}, nil)
		return
	case "owned":
		return
	}
	var ownerT types.Type
	if a.Owner != nil {
		ownerT = a.Owner
	} else if obj := e.pkg.Pkg.Scope().Lookup(owner); obj != nil {
		ownerT = obj.Type()
	}
	if ownerT == nil {
		return
	}
	// guard l1 [& l2]: reads need any of them (any mode); writes need all of them exclusively
	var goals []T
	for _, lk := range gi.Locks {
		key, ok := r.lockKeyOf(st, ownerT, owner, lk, a.Ref)
		if !ok {
			e.fail("type %s has no lock field %s", owner, lk)
			continue
		}
		var ds []T
		for _, l := range st.Locks {
			if write && l.Mode != LockW {
				continue
			}
			ds = append(ds, Eq(l.Key, key))
		}
		goals = append(goals, Or(ds...))
	}
	var goal T
	if write {
		goal = And(goals...)
	} else {
		goal = Or(goals...)
	}
	if strings.HasSuffix(field, "[]") && write {
		if eg := e.entryGuard(owner, strings.TrimSuffix(field, "[]")); eg != "" && a.Idx.S != "" {
			var ds []T
			for _, l := range st.Locks {
				if l.Class == eg && l.Mode == LockW && l.Base.So == a.Idx.So {
					ds = append(ds, Eq(l.Base, a.Idx))
				}
			}
			fresh := False
			if r.createdHere(st, a.Idx) {
				fresh = True // an object created by this call has no other holder of its lock yet
			}
			goal = And(goal, Or(append(ds, fresh)...))
		}
	}
	if write {
		for _, lk := range gi.Locks {
			if e.notifyOnChange(owner, lk) {
				st.Facts["dirty:"+owner+"."+lk+":"+a.Ref.S] = e.posOf(in)
				st.Facts["dirtyf:"+owner+"."+lk+":"+strings.TrimSuffix(field, "[]")+":"+a.Ref.S] = e.posOf(in)
			}
		}
	}
	name := fmt.Sprintf("%s/lockset:%s.%s", e.fnName[fr.Fn], field, rw)
	text := fmt.Sprintf("%s of %s requires %s held (lockset {%s})", map[bool]string{true: "write", false: "read"}[write], a.Region, strings.Join(gi.Locks, " & "), locksKey(st.Locks))
	e.emitWith(st, name, "", nil, goal, text, e.posOf(in), []string{"C11"}, nil)
}

// mapAccessCheck: accesses to the contents of a map are accesses to the field the map was loaded from.
func (r *Run) mapAccessCheck(st *State, fr *Frame, m T, write bool, in ssa.Instruction) {
	e := r.e
	a, ok := e.loaded[m.S]
	if !ok {
		return
	}
	// contents of the map: declared with `guardmap`; otherwise they share the field's protection
	parts := strings.SplitN(a.Region, ".", 2)
	if len(parts) == 2 && e.guardOf(parts[0], parts[1]+"[]").Kind != "" {
		ca := *a
		ca.Region = a.Region + "[]"
		r.accessCheck(st, fr, &ca, write, in)
		return
	}
	if !write {
		// the load itself was already checked
		return
	}
	r.accessCheck(st, fr, a, true, in)
}

// mapKeyAccessCheck: a write of entry m[k].
func (r *Run) mapKeyAccessCheck(st *State, fr *Frame, m, k T, in ssa.Instruction) {
	e := r.e
	a, ok := e.loaded[m.S]
	if !ok {
		return
	}
	parts := strings.SplitN(a.Region, ".", 2)
	if len(parts) == 2 && e.guardOf(parts[0], parts[1]+"[]").Kind != "" {
		ca := *a
		ca.Region = a.Region + "[]"
		ca.Idx = k
		r.accessCheck(st, fr, &ca, true, in)
		return
	}
	r.accessCheck(st, fr, a, true, in)
}

// ---------------------------------------------------------------------------------------------
// Acquire / release with monitor invariants

func (r *Run) typeOfOwner(owner string) types.Type {
	if obj := r.e.pkg.Pkg.Scope().Lookup(owner); obj != nil {
		return obj.Type()
	}
	return nil
}

// guardedFields lists the fields (and ghosts) protected by lock of type owner.
func (e *Engine) guardedFields(owner, lock string) []string {
	tb := e.cs.Types[owner]
	if tb == nil {
		return nil
	}
	var out []string
	for _, cl := range tb.All("guard") {
		for _, w := range cl.Words {
			if w == lock {
				out = append(out, strings.Fields(cl.Expr)...)
			}
		}
	}
	for _, cl := range tb.All("guardmap") {
		for _, w := range cl.Words {
			if w == lock {
				for _, f := range strings.Fields(cl.Expr) {
					out = append(out, f+"[]")
				}
			}
		}
	}
	return out
}

func (r *Run) havocGuardedOf(st *State, owner, lock string, base T) {
	t := r.typeOfOwner(owner)
	if t == nil {
		return
	}
	for _, f := range r.e.guardedFields(owner, lock) {
		if strings.HasSuffix(f, "[]") {
			r.havocMapContents(st, t, owner, base, strings.TrimSuffix(f, "[]"))
			continue
		}
		r.havocField(st, t, base, f)
	}
}

// havocMapContents forgets the contents of the map held in field fname of base, except the entries
// whose key object's own lock is held by this goroutine (`entryguard <field> : <Type.lock>`).
func (r *Run) havocMapContents(st *State, ownerT types.Type, owner string, base T, fname string) {
	e := r.e
	pt := ownerT
	if p, ok := pt.Underlying().(*types.Pointer); ok {
		pt = p.Elem()
	}
	s, ok := pt.Underlying().(*types.Struct)
	if !ok {
		return
	}
	for i := 0; i < s.NumFields(); i++ {
		f := s.Field(i)
		if f.Name() != fname {
			continue
		}
		m := e.readLoc(st, fieldRegionName(owner, fname), f.Type(), base).(T)
		ml := e.mapLayout(f.Type())
		// entries to keep
		type kept struct {
			k   T
			has T
			val Val
		}
		var keep []kept
		if eg := e.entryGuard(owner, fname); eg != "" && !r.effectHavoc {
			// (interference by other threads only: a callee of this thread may itself change the entries it is entitled to)
			for _, l := range st.Locks {
				if l.Class == eg && l.Base.So == ml.ksort {
					keep = append(keep, kept{l.Base, e.mapHas(st, ml, m, l.Base), e.mapVal(st, ml, m, l.Base)})
				}
			}
		}
		r.havocMapAt(st, f.Type(), m)
		for _, kp := range keep {
			st.assume(Eq(e.mapHas(st, ml, m, kp.k), kp.has))
			nv := e.mapVal(st, ml, m, kp.k)
			if a, ok := nv.(T); ok {
				if b, ok := kp.val.(T); ok {
					st.assume(Eq(a, b))
				}
			}
		}
		return
	}
}

func ownProps(cl *Clause, b *Block) []string {
	ps := []string{"C11"}
	src := cl.Props
	if len(src) == 0 && b != nil {
		src = b.Props()
	}
	for _, p := range src {
		if !hasProp(ps, p) {
			ps = append(ps, p)
		}
	}
	return ps
}

// readOwned: is the field read without its lock by some function under a `reads-owned` ownership note.
func (e *Engine) readOwned(owner, field string) bool {
	if e.readOwnedCache == nil {
		e.readOwnedCache = map[string]bool{}
		for name, b := range e.cs.Funcs {
			fn := e.funcs[name]
			if fn == nil || len(b.All("reads-owned")) == 0 {
				continue
			}
			words := map[string]bool{}
			for _, cl := range b.All("reads-owned") {
				for _, w := range cl.Words {
					words[w] = true
				}
			}
			// the owner type of each named field is taken from the field accesses in the reader's body
			for _, blk := range fn.Blocks {
				for _, in := range blk.Instrs {
					if fa, ok := in.(*ssa.FieldAddr); ok {
						pt, _ := fa.X.Type().Underlying().(*types.Pointer)
						if pt == nil {
							continue
						}
						if sx, ok := pt.Elem().Underlying().(*types.Struct); ok {
							k := e.structKey(pt.Elem()) + "." + sx.Field(fa.Field).Name()
							if words[sx.Field(fa.Field).Name()] || words[k] {
								e.readOwnedCache[k] = true
							}
						}
					}
				}
			}
		}
	}
	return e.readOwnedCache[owner+"."+field]
}

// notifyOnChange: `notify-on-change <lock>` — every change of state guarded by <lock> must be followed by a
// Broadcast of the lock's cond before the lock is released (no lost wake-up for predicate waiters).
func (e *Engine) notifyOnChange(owner, lock string) bool {
	tb := e.cs.Types[owner]
	if tb == nil {
		return false
	}
	for _, cl := range tb.All("notify-on-change") {
		for _, w := range cl.Words {
			if w == lock {
				return true
			}
		}
	}
	return len(e.notifyWhen(owner, lock)) > 0
}

// notifyWhen: `notify-when <lock> NAME : cond` — a change of state guarded by <lock> that leaves cond true at the
// release must have been followed by a Broadcast (the waiters' predicate may have become true).
func (e *Engine) notifyWhen(owner, lock string) []*Clause {
	tb := e.cs.Types[owner]
	if tb == nil {
		return nil
	}
	var out []*Clause
	for _, cl := range tb.All("notify-when") {
		if len(cl.Words) > 0 && cl.Words[0] == lock {
			out = append(out, cl)
		}
	}
	return out
}

// entryGuard: `entryguard <mapfield> : <Type.lock>` — entry m[k] is additionally protected by k's own lock.
func (e *Engine) entryGuard(owner, field string) string {
	tb := e.cs.Types[owner]
	if tb == nil {
		return ""
	}
	for _, cl := range tb.All("entryguard") {
		if len(cl.Words) >= 1 && cl.Words[0] == field {
			return strings.TrimSpace(cl.Expr)
		}
	}
	return ""
}

func (r *Run) assumeInvariants(st *State, owner, lock string, base T) {
	e := r.e
	tb := e.cs.Types[owner]
	if tb == nil {
		return
	}
	t := r.typeOfOwner(owner)
	for _, cl := range tb.All("inv") {
		if len(cl.Words) < 1 || cl.Words[0] != lock {
			continue
		}
		x, err := parseSpec(cl.Expr)
		if err != nil {
			e.fail("%v", err)
			continue
		}
		c := e.specCtx(st, nil)
		c.old = nil
		c.vars[tb.Self] = SV{V: base, T: types.NewPointer(t)}
		st.assume(c.boolTerm(x))
	}
}

func (r *Run) assertInvariants(st *State, fr *Frame, owner, lock string, base T, in ssa.Instruction, what string) {
	e := r.e
	tb := e.cs.Types[owner]
	if tb == nil {
		return
	}
	t := r.typeOfOwner(owner)
	ord := e.callOrdinalKind(fr.Fn, in)
	for _, cl := range tb.All("inv") {
		if len(cl.Words) < 1 || cl.Words[0] != lock {
			continue
		}
		x, err := parseSpec(cl.Expr)
		if err != nil {
			e.fail("%v", err)
			continue
		}
		c := e.specCtx(st, fr)
		c.vars[tb.Self] = SV{V: base, T: types.NewPointer(t)}
		var items []goalItem
		c.splitGoal(x, nil, "", &items)
		name := fmt.Sprintf("%s/inv@%s#%d:%s", e.fnName[fr.Fn], what, ord, cl.Label())
		props := cl.Props
		for _, it := range items {
			e.emitWith(st, name, it.sub, it.hyps, it.atom, cl.Expr, e.posOf(in), props, cl)
		}
	}
}

// evalTypeClause evaluates a clause of a type block with the block's self name bound to base.
func (r *Run) evalTypeClause(st *State, owner string, base T, cl *Clause) T {
	e := r.e
	tb := e.cs.Types[owner]
	t := r.typeOfOwner(owner)
	x, err := parseSpec(cl.Expr)
	if err != nil || t == nil {
		e.fail("type clause %s: %v", cl.Expr, err)
		return True
	}
	c := e.specCtx(st, st.top())
	c.vars[tb.Self] = SV{V: base, T: types.NewPointer(t)}
	return c.boolTerm(x)
}

// callOrdinalKind: ordinal of a call/defer instruction among instructions calling the same callee.
func (e *Engine) callOrdinalKind(fn *ssa.Function, in ssa.Instruction) int {
	ci, ok := in.(ssa.CallInstruction)
	if !ok {
		return 0
	}
	return e.callOrdinal(fn, in, e.calleeName(ci.Common()))
}

func (r *Run) acquire(st *State, fr *Frame, lr LockRef, mode LockMode, in ssa.Instruction) {
	e := r.e
	// lock order: every lock already held must rank below the one acquired
	r.orderCheck(st, fr, lr, in)
	st.Locks = append(st.Locks, HeldLock{Class: lr.Class, Base: lr.Base, Key: lr.Key, Mode: mode})
	// `never-locks label : lock-expr` — the function under analysis (with everything inlined into it) never waits for
	// that lock: somebody holds it while waiting for this function to finish
	if b := e.cs.Funcs[e.fnName[st.Frames[0].Fn]]; b != nil && !r.ownClausesOff(st, st.Frames[0]) {
		for _, cl := range b.All("never-locks") {
			if px, err := parseSpec(cl.Expr); err == nil {
				c := e.clauseCtx(st, st.Frames[0], nil)
				c.inLoop = true
				if key, ok := c.eval(px).V.(T); ok && key.So == lr.Key.So {
					e.emitWith(st, fmt.Sprintf("%s/never-locks:%s@acq#%d", e.fnName[st.Frames[0].Fn], cl.Label(), len(st.Path)), "", nil, Not(Eq(lr.Key, key)),
						"acquisition at "+e.posOf(in)+" is not of "+cl.Expr, e.posOf(in), cl.Props, cl)
				}
			}
		}
	}
	// waiting for a lock takes time: context checks made before the acquisition are stale (the holder may have
	// cancelled the context in the meantime)
	for k := range st.Ghost {
		if strings.HasPrefix(k, "ctxerr.last:") {
			delete(st.Ghost, k)
		}
	}
	r.acquireLocal(st, fr, lr)
	if lr.Class == "" {
		return
	}
	if !r.isFresh(st, lr.Base) {
		r.havocGuardedOf(st, lr.Owner, lr.Field, lr.Base)
	}
	r.assumeInvariants(st, lr.Owner, lr.Field, lr.Base)
	r.assumeRely(st, fr, lr)
	// action contracts: old() refers to the state at the first acquisition of the action lock
	if b := e.cs.Funcs[e.fnName[st.Frames[0].Fn]]; b != nil {
		if act := b.First("action"); act != nil && len(act.Words) > 0 && act.Words[0] == lr.Field && !st.OldSet {
			if r.isRecvLock(st, lr) {
				st.OldHeap = copyHeap(st.Heap)
				st.OldSet = true
			}
		}
	}
}

// guardLocal: `guard-local LOCKVAR : v1 v2 ...` in a function block — the local (usually captured) variables
// v1.. are shared with concurrently running closures and only accessed while the mutex held in the local
// variable LOCKVAR is locked. Returns the lock variable guarding the cell name, if any.
func (e *Engine) guardLocal(fn *ssa.Function, name string) string {
	b := e.cs.Funcs[e.fnName[fn]]
	if b == nil {
		return ""
	}
	for _, cl := range b.All("guard-local") {
		if len(cl.Words) == 0 {
			continue
		}
		for _, w := range strings.Fields(cl.Expr) {
			if w == name {
				return cl.Words[0]
			}
		}
	}
	return ""
}

// acquireLocal: at the acquisition of a guard-local lock other threads may have changed the guarded
// variables: they get arbitrary values; in the function analysed on its own, old()/entry values of these
// variables denote the values found at this acquisition.
func (r *Run) acquireLocal(st *State, fr *Frame, lr LockRef) {
	e := r.e
	b := e.cs.Funcs[e.fnName[fr.Fn]]
	if b == nil {
		return
	}
	for _, cl := range b.All("guard-local") {
		if len(cl.Words) == 0 {
			continue
		}
		lc, ok := fr.Cells[cl.Words[0]]
		if !ok {
			continue
		}
		lv, ok := st.Cells[lc].(T)
		if !ok || lv.S != lr.Key.S {
			continue
		}
		for _, w := range strings.Fields(cl.Expr) {
			c, ok := fr.Cells[w]
			if !ok {
				e.fail("guard-local: no local variable %s in %s", w, e.fnName[fr.Fn])
				continue
			}
			v := e.freshVal(st, c.Typ, "acq_"+w)
			st.Cells[c] = v
			if len(st.Frames) == 1 {
				st.Entry["fv:"+w] = v
			}
		}
		e.note("guard-local in %s: {%s} re-read at the acquisition of %s (other threads may have changed them)", e.fnName[fr.Fn], cl.Expr, cl.Words[0])
	}
}

// guardLocalCheck: an access to a guard-local variable needs its lock.
func (r *Run) guardLocalCheck(st *State, fr *Frame, c *Cell, write bool, in ssa.Instruction) {
	e := r.e
	lockVar := e.guardLocal(fr.Fn, c.Name)
	if lockVar == "" {
		return
	}
	goal := False
	if lc, ok := fr.Cells[lockVar]; ok {
		if lv, ok := st.Cells[lc].(T); ok {
			var ds []T
			for _, l := range st.Locks {
				ds = append(ds, Eq(l.Key, lv))
			}
			goal = Or(ds...)
		}
	}
	kind := "r"
	if write {
		kind = "w"
	}
	e.emitWith(st, fmt.Sprintf("%s/own:guard-local-%s.%s", e.fnName[fr.Fn], c.Name, kind), "", nil, goal,
		"local variable "+c.Name+" is only accessed with "+lockVar+" locked", e.posOf(in), []string{"C11"}, nil)
}

// assumeRely: `rely label : expr` clauses of the function being analysed are thread-local facts that are
// stable under interference (justified in the contracts file); they are re-assumed after every
// acquisition of the receiver's lock.
func (r *Run) assumeRely(st *State, fr *Frame, lr LockRef) {
	e := r.e
	top := st.Frames[0]
	b := e.cs.Funcs[e.fnName[top.Fn]]
	if b == nil || !r.isRecvLock(st, lr) {
		return
	}
	for _, cl := range b.All("rely") {
		t := e.evalClause(st, top, cl, nil)
		st.assume(t)
		e.note("rely (thread-local fact assumed stable under interference) in %s: %s", e.fnName[top.Fn], cl.Expr)
	}
}

func (r *Run) isRecvLock(st *State, lr LockRef) bool {
	top := st.Frames[0]
	if len(top.Args) == 0 {
		return true
	}
	if t, ok := top.Args[0].(T); ok {
		return t.S == lr.Base.S
	}
	return true
}

func (r *Run) orderCheck(st *State, fr *Frame, lr LockRef, in ssa.Instruction) {
	e := r.e
	if len(st.Locks) == 0 || lr.Class == "" {
		return
	}
	rank := func(class string) int {
		for i, c := range e.lockOrder {
			if c == class {
				return i
			}
		}
		return -1
	}
	rn := rank(lr.Class)
	if rn < 0 {
		return
	}
	ok := true
	for _, h := range st.Locks {
		if rh := rank(h.Class); rh >= 0 && rh >= rn {
			ok = false
		}
	}
	name := fmt.Sprintf("%s/order#%d", e.fnName[fr.Fn], e.callOrdinalKind(fr.Fn, in))
	goal := True
	if !ok {
		goal = False
	}
	e.emitWith(st, name, "", nil, goal, "lock order: "+lr.Class+" acquired while holding {"+locksKey(st.Locks)+"}", e.posOf(in), []string{"C12"}, nil)
}

func (r *Run) release(st *State, fr *Frame, lr LockRef, mode LockMode, in ssa.Instruction) {
	e := r.e
	// find the lock in the lockset (syntactic match on the key; SMT-level match is not needed here
	// because keys are built from the same terms)
	idx := -1
	for i := len(st.Locks) - 1; i >= 0; i-- {
		if st.Locks[i].Key.S == lr.Key.S && st.Locks[i].Mode == mode {
			idx = i
			break
		}
	}
	name := fmt.Sprintf("%s/safe:unlock#%d", e.fnName[fr.Fn], e.callOrdinalKind(fr.Fn, in))
	if idx < 0 {
		// maybe held under a different but provably equal key
		var ds []T
		for _, l := range st.Locks {
			if l.Mode == mode {
				ds = append(ds, Eq(l.Key, lr.Key))
			}
		}
		e.emitWith(st, name, "", nil, Or(ds...), "unlock of a lock that is held in this mode", e.posOf(in), []string{"C11"}, nil)
		if len(ds) > 0 {
			// drop the most recent lock of that mode
			for i := len(st.Locks) - 1; i >= 0; i-- {
				if st.Locks[i].Mode == mode {
					idx = i
					break
				}
			}
		}
	} else {
		e.emitWith(st, name, "", nil, True, "unlock of a lock that is held in this mode", e.posOf(in), []string{"C11"}, nil)
	}
	if lr.Class != "" && mode == LockW {
		// ghost updates attached to the release of the action lock
		top := st.Frames[0]
		if b := e.cs.Funcs[e.fnName[top.Fn]]; b != nil && r.isRecvLock(st, lr) {
			if act := b.First("action"); act != nil && len(act.Words) > 0 && act.Words[0] == lr.Field {
				for _, up := range b.All("update-at-release") {
					r.applyUpdateAtExit(st, top, up, nil)
				}
				for _, as := range b.All("assume-at-release") {
					t := e.evalClause(st, top, as, nil)
					st.assume(t)
					e.note("ghost definition at release in %s (prophecy resolution of a rigid history): %s", e.fnName[top.Fn], as.Expr)
				}
			}
		}
		r.assertInvariants(st, fr, lr.Owner, lr.Field, lr.Base, in, "release")
		if nw := e.notifyWhen(lr.Owner, lr.Field); len(nw) > 0 {
			k := "dirty:" + lr.Class + ":" + lr.Base.S
			_, dirtyAny := st.Facts[k]
			for _, cl := range nw {
				// `notify-when L on f1 f2 label : cond` — only changes of the listed fields count
				dirty := dirtyAny
				if len(cl.Words) >= 4 && cl.Words[1] == "on" {
					dirty = false
					for _, f := range cl.Words[2 : len(cl.Words)-1] {
						if _, ok := st.Facts["dirtyf:"+lr.Class+":"+f+":"+lr.Base.S]; ok {
							dirty = true
						}
					}
				}
				goal := True
				if dirty {
					goal = Not(r.evalTypeClause(st, lr.Owner, lr.Base, cl))
				}
				nm := cl.Words[len(cl.Words)-1]
				e.emitWith(st, fmt.Sprintf("%s/notify-when:%s#%d", e.fnName[fr.Fn], nm, e.callOrdinalKind(fr.Fn, in)), "", nil, goal,
					"state guarded by "+lr.Class+" changed (at "+st.Facts[k]+") leaving `"+cl.Expr+"` true, without a Broadcast before the release", e.posOf(in), cl.Props, cl)
			}
			delete(st.Facts, k)
			for fk := range st.Facts {
				if strings.HasPrefix(fk, "dirtyf:"+lr.Class+":") && strings.HasSuffix(fk, ":"+lr.Base.S) {
					delete(st.Facts, fk)
				}
			}
		} else if e.notifyOnChange(lr.Owner, lr.Field) {
			k := "dirty:" + lr.Class + ":" + lr.Base.S
			goal := True
			if pos, dirty := st.Facts[k]; dirty {
				goal = False
				_ = pos
			}
			e.emitWith(st, fmt.Sprintf("%s/bcast-after-change#%d", e.fnName[fr.Fn], e.callOrdinalKind(fr.Fn, in)), "", nil, goal,
				"state guarded by "+lr.Class+" changed (at "+st.Facts[k]+") without a Broadcast before the release", e.posOf(in), []string{"C04", "C05"}, nil)
			delete(st.Facts, k)
		}
	}
	if idx >= 0 {
		st.Locks = append(append([]HeldLock(nil), st.Locks[:idx]...), st.Locks[idx+1:]...)
	}
}

// interference: at a call of an `action` function whose lock the caller does not hold, other threads
// may have changed the guarded state before the callee's critical section.
func (r *Run) interference(st *State, fn *ssa.Function, recv T, lock string) {
	e := r.e
	owner := e.structKey(fn.Signature.Recv().Type())
	t := r.typeOfOwner(owner)
	if t == nil {
		return
	}
	key, ok := r.lockKeyOf(st, t, owner, lock, recv)
	if ok {
		for _, l := range st.Locks {
			if l.Key.S == key.S {
				return
			}
		}
	}
	if r.isFresh(st, recv) {
		return
	}
	r.havocGuardedOf(st, owner, lock, recv)
	r.assumeInvariants(st, owner, lock, recv)
}

func (r *Run) havocGuarded(st *State, fn *ssa.Function, recv T, lock string) {
	owner := r.e.structKey(fn.Signature.Recv().Type())
	r.effectHavoc = true // the effects of a callee running in this thread, not interference
	r.havocGuardedOf(st, owner, lock, recv)
	r.effectHavoc = false
	r.assumeInvariants(st, owner, lock, recv)
}

func (r *Run) applyLockPost(st *State, fn *ssa.Function, cl *Clause, vars map[string]SV) {
	// lockpost acquire|release <expr>: the callee leaves with a lock more/less (rare; used for hand-over)
}

// ---------------------------------------------------------------------------------------------
// Channels (ghost counters only; no buffer model)

func (r *Run) makeChan(st *State, fr *Frame, x *ssa.MakeChan) Val {
	e := r.e
	ch := e.freshConst("newchan", SChan)
	st.assume(Not(Eq(ch, NilOf(SChan))))
	for _, o := range st.Fresh {
		if o.So == SChan {
			st.assume(Not(Eq(ch, o)))
		}
	}
	st.Fresh = append(st.Fresh, ch)
	size := r.intVal(st, fr, x.Size)
	e.region(st, "chan.cap", []Sort{SChan}, SInt)
	e.regionWrite1(st, "chan.cap", SInt, ch, size)
	e.region(st, "chan.sent", []Sort{SChan}, e.cntSort())
	e.regionWrite1(st, "chan.sent", e.cntSort(), ch, e.cntLit(0))
	e.region(st, "chan.recvd", []Sort{SChan}, e.cntSort())
	e.regionWrite1(st, "chan.recvd", e.cntSort(), ch, e.cntLit(0))
	e.region(st, "chan.closed", []Sort{SChan}, SBool)
	e.regionWrite1(st, "chan.closed", SBool, ch, False)
	return ch
}

// channel event counters are Int (int mode) or 64-bit vectors (bv mode)
func (e *Engine) cntSort() Sort {
	if e.bv {
		return BV(64)
	}
	return SInt
}

func (e *Engine) cntLit(n int64) T {
	if e.bv {
		return BVLit(uint64(n), 64)
	}
	return IntLit(n)
}

func (r *Run) chanCount(st *State, what string, ch T) T {
	return r.e.regionRead(st, "chan."+what, []Sort{SChan}, r.e.cntSort(), ch)
}

func (r *Run) bumpChan(st *State, what string, ch T) {
	e := r.e
	cur := r.chanCount(st, what, ch)
	op := "+"
	if e.bv {
		op = "bvadd"
	}
	e.regionWrite1(st, "chan."+what, e.cntSort(), ch, App(e.cntSort(), op, cur, e.cntLit(1)))
}

func (r *Run) send(st *State, fr *Frame, x *ssa.Send) []*State {
	e := r.e
	ch := e.asTerm(r.val(st, fr, x.Chan), SChan)
	v := r.val(st, fr, x.X)
	r.blockingPoint(st, fr, x, "send", nil)
	r.sendEvent(st, fr, ch, v, x)
	return nil
}

func (r *Run) sendEvent(st *State, fr *Frame, ch T, v Val, in ssa.Instruction) {
	e := r.e
	if r.createdHere(st, ch) {
		closed := e.regionRead(st, "chan.closed", []Sort{SChan}, SBool, ch)
		e.safety(st, fr, in, "sendclosed", Not(closed), "send on a channel that this function has not closed at "+e.posOf(in))
	}
	r.noteEscape(st, v)
	r.atCall(st, fr, "send", []Val{ch, v}, nil, in)
	r.bumpChan(st, "sent", ch)
	st.Ghost["lastsent:"+ch.S] = v
	// blocking operation: other goroutines run
	r.yield(st, fr, in, "send")
}

func (r *Run) recv(st *State, fr *Frame, x *ssa.UnOp) []*State {
	e := r.e
	ch := e.asTerm(r.val(st, fr, x.X), SChan)
	r.blockingPoint(st, fr, x, "receive", []T{ch})
	var et types.Type
	if c, ok := coreType(x.X.Type()).(*types.Chan); ok {
		et = c.Elem()
	} else {
		et = x.Type()
	}
	v := r.recvEvent(st, fr, ch, et, x)
	if x.CommaOk {
		ok := e.freshConst("recv_ok", SBool)
		fr.Vals[x] = &TupleV{V: []Val{v, ok}}
	} else {
		fr.Vals[x] = v
	}
	return nil
}

func (r *Run) recvEvent(st *State, fr *Frame, ch T, et types.Type, in ssa.Instruction) Val {
	e := r.e
	r.bumpChan(st, "recvd", ch)
	r.yield(st, fr, in, "recv")
	r.atCall(st, fr, "recv", []Val{ch}, nil, in)
	for k := range st.Ghost {
		if strings.HasPrefix(k, "called:") {
			delete(st.Ghost, k) // calledsince() counts from the latest receive
		}
	}
	if ctx, ok := e.doneOf[ch.S]; ok {
		// a receive from ctx.Done() returns only once ctx is cancelled
		r.ctxStep(st)
		st.assume(r.cancelled(st, ctx))
	}
	v := e.freshVal(st, et, "recv")
	r.assumeChanMsg(st, ch, v, et)
	st.Ghost["lastrecv:"+ch.S] = v
	if _, isSel := in.(*ssa.Select); !isSel {
		r.afterCall(st, fr, "recv", []Val{ch}, []Val{v}, nil, in)
	}
	return v
}

// yield: a blocking instruction; nothing is known about unguarded shared state afterwards, but all
// state this engine tracks is either guarded (re-havoced at acquisition) or thread-local.
func (r *Run) yield(st *State, fr *Frame, in ssa.Instruction, what string) {
	// time passes while blocked: earlier context checks are stale
	for k := range st.Ghost {
		if strings.HasPrefix(k, "ctxerr.last:") {
			delete(st.Ghost, k)
		}
	}
	if len(st.Locks) > 0 {
		st.Facts["blocked-while-holding:"+r.e.posOf(in)] = what + " {" + locksKey(st.Locks) + "}"
	}
}

// checkClosureRequires: a closure with its own contract is handed to something that will run it later
// (go statement, reflect.MakeFunc, context.AfterFunc): its preconditions over the captured variables must hold now.
func (r *Run) checkClosureRequires(st *State, fr *Frame, f *Closure, args []Val, in ssa.Instruction, how string) {
	e := r.e
	name := e.fnName[f.Fn]
	blk := e.cs.Funcs[name]
	if blk == nil || (len(blk.All("requires")) == 0 && len(blk.All("holds")) == 0) {
		return
	}
	vars := e.contractVars(f.Fn, args)
	for _, cl := range blk.All("holds") {
		// a lock handed over to the new goroutine must be held where it is started
		px, err := parseSpec(cl.Expr)
		if err != nil {
			continue
		}
		c := e.specCtx(st, nil)
		for i, fv := range f.Fn.FreeVars {
			if i < len(f.Binds) {
				if a, ok := f.Binds[i].(*Addr); ok && a.Kind == ACell {
					c.vars[fv.Name()] = SV{V: st.Cells[a.Cell], T: a.Cell.Typ}
				} else if t, ok := f.Binds[i].(T); ok {
					c.vars[fv.Name()] = SV{V: t, T: fv.Type()}
				}
			}
		}
		goal := False
		if key, ok := c.eval(px).V.(T); ok {
			var ds []T
			for _, l := range st.Locks {
				ds = append(ds, Eq(l.Key, key))
			}
			goal = Or(ds...)
		}
		e.emitWith(st, fmt.Sprintf("%s/requires@%s:%s:holds", e.fnName[fr.Fn], how, name), "", nil, goal, "lock handed over to "+name+" is held: "+cl.Expr, e.posOf(in), []string{"C11"}, cl)
	}
	for _, cl := range blk.All("requires") {
		px, err := parseSpec(cl.Expr)
		if err != nil {
			e.fail("%v", err)
			continue
		}
		c := e.specCtx(st, nil)
		c.entry = vars
		for k, v := range vars {
			c.vars[k] = v
		}
		for i, fv := range f.Fn.FreeVars {
			if i < len(f.Binds) {
				if a, ok := f.Binds[i].(*Addr); ok && a.Kind == ACell {
					c.vars[fv.Name()] = SV{V: st.Cells[a.Cell], T: a.Cell.Typ}
					c.vars["fv_"+fv.Name()] = c.vars[fv.Name()]
				} else if t, ok := f.Binds[i].(T); ok {
					c.vars[fv.Name()] = SV{V: t, T: fv.Type()}
				}
			}
		}
		var items []goalItem
		nerr := len(e.errors)
		c.splitGoal(px, nil, "", &items)
		if len(e.errors) > nerr {
			// the clause speaks about the closure's own parameters: an obligation of whoever calls it, not of the registration
			e.errors = e.errors[:nerr]
			e.note("precondition %s/%s concerns the closure's parameters and is not checked where it is registered (%s)", name, cl.Label(), how)
			continue
		}
		for _, it := range items {
			e.emitWith(st, fmt.Sprintf("%s/requires@%s:%s:%s", e.fnName[fr.Fn], how, name, cl.Label()), it.sub, it.hyps, it.atom, cl.Expr, e.posOf(in), cl.Props, cl)
		}
	}
	e.usedContracts[name] = true
}

func (r *Run) createdHere(st *State, ch T) bool {
	for _, o := range st.Fresh {
		if o.S == ch.S {
			return true
		}
	}
	return false
}

func (r *Run) closeChan(st *State, fr *Frame, ch T, in ssa.Instruction) []*State {
	e := r.e
	closed := e.regionRead(st, "chan.closed", []Sort{SChan}, SBool, ch)
	e.safety(st, fr, in, "close", And(Not(Eq(ch, NilOf(SChan))), Not(closed)), "close of a non-nil channel not already closed at "+e.posOf(in))
	e.regionWrite1(st, "chan.closed", SBool, ch, True)
	return nil
}

// assumeChanMsg: message invariant of package-created channels (declared with `chan` clauses).
func (r *Run) assumeChanMsg(st *State, ch T, v Val, et types.Type) {}

// blockingPoint: `cancellable label : chan-expr [; except SITE...]` in the block of a function — every operation of
// the function's own body that can block indefinitely (a select without default, a plain send, a plain receive) must be
// a select with a receive case on the named channel (e.g. ctxdone(ctx)): the function cannot outlive the cancellation
// signal at any of its waits. cases holds the channels received from (a plain receive of the channel itself qualifies); nil for a plain send.
func (r *Run) blockingPoint(st *State, fr *Frame, in ssa.Instruction, kind string, cases []T) {
	e := r.e
	blk := e.cs.Funcs[e.fnName[fr.Fn]]
	if blk == nil || r.ownClausesOff(st, fr) {
		return
	}
	for _, cl := range blk.All("cancellable") {
		x, err := parseSpec(cl.Expr)
		if err != nil {
			e.fail("%v", err)
			continue
		}
		c := e.clauseCtx(st, fr, nil)
		c.inLoop = true
		want := c.coerceTo(c.eval(x), SChan)
		goal := False
		var ds []T
		for _, ch := range cases {
			ds = append(ds, Eq(ch, want))
		}
		if len(ds) > 0 {
			goal = Or(ds...)
		}
		ord := e.blockOrdinal(fr.Fn, in)
		e.emitWith(st, fmt.Sprintf("%s/cancellable:%s@wait#%d", e.fnName[fr.Fn], cl.Label(), ord), "", nil, goal,
			kind+" at "+e.posOf(in)+" also waits for "+cl.Expr, e.posOf(in), cl.Props, cl)
	}
}

// blockOrdinal: ordinal of a potentially blocking instruction among those of its function (block order).
func (e *Engine) blockOrdinal(fn *ssa.Function, in ssa.Instruction) int {
	n := 0
	for _, b := range fn.Blocks {
		for _, i := range b.Instrs {
			is := false
			switch x := i.(type) {
			case *ssa.Send:
				is = true
			case *ssa.UnOp:
				is = x.Op == token.ARROW
			case *ssa.Select:
				is = x.Blocking
			}
			if is {
				if i == in {
					return n
				}
				n++
			}
		}
	}
	return n
}

func (r *Run) selectOp(st *State, fr *Frame, x *ssa.Select) []*State {
	e := r.e
	// result tuple: (index int, recvOk bool, r_0 T_0, ... r_n-1 T_n-1) for the receive states
	tup := x.Type().(*types.Tuple)
	build := func(s *State, f *Frame, idx int) {
		vals := make([]Val, tup.Len())
		vals[0] = r.fromInt(IntLit(int64(idx)), types.Typ[types.Int])
		vals[1] = e.freshConst("sel_ok", SBool)
		ri := 2
		for i, sc := range x.States {
			if sc.Dir == types.RecvOnly {
				if ri < tup.Len() {
					if i == idx {
						ch := e.asTerm(r.val(s, f, sc.Chan), SChan)
						var et types.Type = tup.At(ri).Type()
						vals[ri] = r.recvEvent(s, f, ch, et, x)
					} else {
						vals[ri] = e.zeroVal(s, tup.At(ri).Type())
					}
					ri++
				} else if i == idx {
					ch := e.asTerm(r.val(s, f, sc.Chan), SChan)
					r.bumpChan(s, "recvd", ch)
				}
			} else if i == idx {
				ch := e.asTerm(r.val(s, f, sc.Chan), SChan)
				r.sendEvent(s, f, ch, r.val(s, f, sc.Send), x)
			}
		}
		s.Facts["select:"+e.posOf(x)] = fmt.Sprintf("%d", idx)
		f.Vals[x] = &TupleV{V: vals}
	}
	var forks []*State
	n := len(x.States)
	first := 0
	if !x.Blocking {
		first = -1
	}
	if x.Blocking {
		var rc []T
		for _, sc := range x.States {
			if sc.Dir == types.RecvOnly {
				rc = append(rc, e.asTerm(r.val(st, fr, sc.Chan), SChan))
			}
		}
		if rc == nil {
			rc = []T{}
		}
		r.blockingPoint(st, fr, x, "select", rc)
	}
	for idx := first + 1; idx < n; idx++ {
		s := st.clone()
		build(s, s.top(), idx)
		forks = append(forks, s)
	}
	if n == 0 && x.Blocking {
		st.Done = true
		return nil
	}
	build(st, fr, first)
	if first >= 0 {
		// blocking select: case `first` chosen on this state
	}
	return forks
}

func (r *Run) goStmt(st *State, fr *Frame, x *ssa.Go) []*State {
	e := r.e
	fnv := r.val(st, fr, x.Call.Value)
	for _, a := range x.Call.Args {
		r.noteEscape(st, r.val(st, fr, a))
	}
	// everything allocated so far may be reachable from the new goroutine
	for _, o := range st.Fresh {
		st.Escaped[o.S] = true
	}
	name := "dynamic"
	switch f := fnv.(type) {
	case *Closure:
		name = e.fnName[f.Fn]
		r.shareClosure(st, f, "go")
		// spawn contract: the preconditions of the body must hold where it is started
		var sargs []Val
		for _, a := range x.Call.Args {
			sargs = append(sargs, r.val(st, fr, a))
		}
		r.checkClosureRequires(st, fr, f, sargs, x, "go")

	case *BoundMethod:
		name = f.Name
	}
	cur := e.regionRead(st, "cnt:go", []Sort{SStr}, SInt, e.strConst(name))
	e.regionWrite1(st, "cnt:go", SInt, e.strConst(name), App(SInt, "+", cur, IntLit(1)))
	st.Facts["spawned:"+name+"@"+e.posOf(x)] = locksKey(st.Locks)
	return nil
}
