package main

import (
	"bufio"
	"crypto/sha1"
	"fmt"
	"os"
	"regexp"
	"strconv"
	"strings"
)

// Clause is one `//@` line inside a block.
type Clause struct {
	Kind  string   // requires | ensures | inv | loop | guard | frozen | ghost | ...
	Words []string // words between the kind and the colon (label, lock name, loop ordinal, ...)
	Props []string // [C01,C05] tags
	Expr  string   // text after the first " : "
	Line  int
	Raw   string
	Orig  []string // Words as written in the contracts file (obligation names use these; Words may follow a source rename)
}

func (c *Clause) Label() string {
	if len(c.Orig) > 0 {
		return c.Orig[len(c.Orig)-1]
	}
	if len(c.Words) > 0 {
		return c.Words[len(c.Words)-1]
	}
	return fmt.Sprintf("L%d", c.Line)
}

func (c *Clause) Hash() string {
	h := sha1.Sum([]byte(c.Kind + "|" + strings.Join(c.Words, " ") + "|" + c.Expr))
	return fmt.Sprintf("%x", h[:6])
}

type Block struct {
	Kind    string // func | type | lemma | lockorder | chan
	Name    string
	Self    string // for type blocks: name of the self variable
	Clauses []*Clause
	Line    int
}

func (b *Block) All(kind string) []*Clause {
	var out []*Clause
	for _, c := range b.Clauses {
		if c.Kind == kind {
			out = append(out, c)
		}
	}
	return out
}

func (b *Block) First(kind string) *Clause {
	for _, c := range b.Clauses {
		if c.Kind == kind {
			return c
		}
	}
	return nil
}

func (b *Block) Props() []string {
	var out []string
	for _, c := range b.All("props") {
		out = append(out, c.Words...)
	}
	return out
}

type Contracts struct {
	Blocks []*Block
	Funcs  map[string]*Block
	Types  map[string]*Block
	Lemmas []*Block
	File   string
}

var tagRe = regexp.MustCompile(`\[([A-Z0-9, ]+)\]`)

func parseContracts(path string) (*Contracts, error) {
	f, err := os.Open(path)
	if err != nil {
		return nil, err
	}
	defer f.Close()
	cs := &Contracts{Funcs: map[string]*Block{}, Types: map[string]*Block{}, File: path}
	sc := bufio.NewScanner(f)
	sc.Buffer(make([]byte, 1<<20), 1<<20)
	var cur *Block
	var last *Clause
	ln := 0
	for sc.Scan() {
		ln++
		line := strings.TrimSpace(sc.Text())
		if !strings.HasPrefix(line, "//@") {
			continue
		}
		body := strings.TrimSpace(line[3:])
		if body == "" || strings.HasPrefix(body, "#") {
			continue
		}
		if strings.HasPrefix(body, "|") { // continuation
			if last == nil {
				return nil, fmt.Errorf("%s:%d: continuation without clause", path, ln)
			}
			last.Expr += " " + strings.TrimSpace(body[1:])
			continue
		}
		// strip trailing comment introduced by " // "
		if i := strings.Index(body, " // "); i >= 0 {
			body = strings.TrimSpace(body[:i])
		}
		fields := strings.Fields(body)
		switch fields[0] {
		case "func", "type", "lemma", "lockorder", "axioms", "config":
			cur = &Block{Kind: fields[0], Line: ln}
			rest := strings.TrimSpace(body[len(fields[0]):])
			if fields[0] == "type" {
				// type NAME as self
				parts := strings.Fields(rest)
				cur.Name = parts[0]
				if len(parts) >= 3 && parts[1] == "as" {
					cur.Self = parts[2]
				}
				cs.Types[cur.Name] = cur
			} else if fields[0] == "func" {
				cur.Name = rest
				if _, dup := cs.Funcs[cur.Name]; dup {
					return nil, fmt.Errorf("%s:%d: duplicate func block %s", path, ln, cur.Name)
				}
				cs.Funcs[cur.Name] = cur
			} else if fields[0] == "lemma" {
				cur.Name = rest
				cs.Lemmas = append(cs.Lemmas, cur)
			} else {
				cur.Name = rest
			}
			cs.Blocks = append(cs.Blocks, cur)
			last = nil
			continue
		}
		if cur == nil {
			return nil, fmt.Errorf("%s:%d: clause outside block", path, ln)
		}
		cl := &Clause{Kind: fields[0], Line: ln, Raw: body}
		head := body[len(fields[0]):]
		if i := strings.Index(head, " : "); i >= 0 {
			cl.Expr = strings.TrimSpace(head[i+3:])
			head = head[:i]
		} else if strings.HasSuffix(strings.TrimSpace(head), ":") {
			head = strings.TrimSuffix(strings.TrimSpace(head), ":")
		}
		if m := tagRe.FindStringSubmatch(head); m != nil {
			for _, p := range strings.Split(m[1], ",") {
				if p = strings.TrimSpace(p); p != "" {
					cl.Props = append(cl.Props, p)
				}
			}
			head = tagRe.ReplaceAllString(head, "")
		}
		cl.Words = strings.Fields(head)
		cur.Clauses = append(cur.Clauses, cl)
		last = cl
	}
	return cs, sc.Err()
}

// loopClauses returns the invariant clauses of loop n of a func block.
func (b *Block) loopClauses(n int) []*Clause {
	var out []*Clause
	for _, c := range b.All("loop") {
		if len(c.Words) >= 2 {
			if k, err := strconv.Atoi(c.Words[0]); err == nil && k == n && c.Words[1] == "invariant" {
				out = append(out, c)
			}
		}
	}
	return out
}
