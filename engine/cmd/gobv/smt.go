package main

import (
	"bytes"
	"context"
	"fmt"
	"os"
	"os/exec"
	"path/filepath"
	"sort"
	"strings"
	"sync"
	"sync/atomic"
	"time"
)

// Sort is an SMT-LIB sort, written out.
type Sort string

const (
	SInt  Sort = "Int"
	SBool Sort = "Bool"
	SRef  Sort = "Ref"  // pointers, maps
	SAny  Sort = "Any"  // interface values
	SStr  Sort = "Str"  // strings (uninterpreted)
	SFn   Sort = "Fn"   // function values
	SChan Sort = "Chan" // channels
)

func BV(n int) Sort { return Sort(fmt.Sprintf("(_ BitVec %d)", n)) }

func (s Sort) IsBV() bool { return strings.HasPrefix(string(s), "(_ BitVec") }
func (s Sort) BVWidth() int {
	var n int
	fmt.Sscanf(string(s), "(_ BitVec %d)", &n)
	return n
}

// T is a term with its sort.
type T struct {
	S  string
	So Sort
}

func (t T) String() string { return t.S }

var (
	True  = T{"true", SBool}
	False = T{"false", SBool}
)

func IntLit(n int64) T {
	if n < 0 {
		return T{fmt.Sprintf("(- %d)", -n), SInt}
	}
	return T{fmt.Sprintf("%d", n), SInt}
}

func BVLit(v uint64, w int) T {
	if w < 64 {
		v &= (uint64(1) << uint(w)) - 1
	}
	return T{fmt.Sprintf("(_ bv%d %d)", v, w), BV(w)}
}

func App(so Sort, fn string, args ...T) T {
	if len(args) == 0 {
		return T{fn, so}
	}
	var b strings.Builder
	b.WriteString("(")
	b.WriteString(fn)
	for _, a := range args {
		b.WriteString(" ")
		b.WriteString(a.S)
	}
	b.WriteString(")")
	return T{b.String(), so}
}

func Not(a T) T {
	switch a.S {
	case "true":
		return False
	case "false":
		return True
	}
	if strings.HasPrefix(a.S, "(not ") {
		return T{a.S[5 : len(a.S)-1], SBool}
	}
	return App(SBool, "not", a)
}

func And(as ...T) T {
	var out []T
	for _, a := range as {
		if a.S == "true" {
			continue
		}
		if a.S == "false" {
			return False
		}
		out = append(out, a)
	}
	switch len(out) {
	case 0:
		return True
	case 1:
		return out[0]
	}
	return App(SBool, "and", out...)
}

func Or(as ...T) T {
	var out []T
	for _, a := range as {
		if a.S == "false" {
			continue
		}
		if a.S == "true" {
			return True
		}
		out = append(out, a)
	}
	switch len(out) {
	case 0:
		return False
	case 1:
		return out[0]
	}
	return App(SBool, "or", out...)
}

func Implies(a, b T) T {
	if a.S == "true" {
		return b
	}
	if a.S == "false" || b.S == "true" {
		return True
	}
	return App(SBool, "=>", a, b)
}

func Eq(a, b T) T {
	if a.S == b.S {
		return True
	}
	return App(SBool, "=", a, b)
}

func Ite(c, a, b T) T {
	if c.S == "true" {
		return a
	}
	if c.S == "false" {
		return b
	}
	if a.S == b.S {
		return a
	}
	return App(a.So, "ite", c, a, b)
}

func Forall(vars []T, pats []T, body T) T {
	if body.S == "true" {
		return True
	}
	var b strings.Builder
	b.WriteString("(forall (")
	for _, v := range vars {
		fmt.Fprintf(&b, "(%s %s)", v.S, v.So)
	}
	b.WriteString(") ")
	if len(pats) > 0 {
		b.WriteString("(! ")
		b.WriteString(body.S)
		for _, p := range pats {
			b.WriteString(" :pattern (")
			b.WriteString(p.S)
			b.WriteString(")")
		}
		b.WriteString(")")
	} else {
		b.WriteString(body.S)
	}
	b.WriteString(")")
	return T{b.String(), SBool}
}

func Exists(vars []T, body T) T {
	var b strings.Builder
	b.WriteString("(exists (")
	for _, v := range vars {
		fmt.Fprintf(&b, "(%s %s)", v.S, v.So)
	}
	b.WriteString(") ")
	b.WriteString(body.S)
	b.WriteString(")")
	return T{b.String(), SBool}
}

var freshCounter int64

func freshName(hint string) string {
	n := atomic.AddInt64(&freshCounter, 1)
	hint = sanitize(hint)
	return fmt.Sprintf("%s!%d", hint, n)
}

func sanitize(s string) string {
	var b strings.Builder
	for _, r := range s {
		switch {
		case r >= 'a' && r <= 'z', r >= 'A' && r <= 'Z', r >= '0' && r <= '9', r == '_', r == '.', r == '$':
			b.WriteRune(r)
		default:
			b.WriteRune('_')
		}
	}
	if b.Len() == 0 {
		return "v"
	}
	return b.String()
}

const smtPreamble = `(set-option :produce-models true)
(set-logic ALL)
(declare-sort Ref 0)
(declare-sort Any 0)
(declare-sort Str 0)
(declare-sort Fn 0)
(declare-sort Chan 0)
(declare-fun nil_Ref () Ref)
(declare-fun nil_Any () Any)
(declare-fun nil_Fn () Fn)
(declare-fun nil_Chan () Chan)
`

func NilOf(so Sort) T {
	switch so {
	case SRef, SAny, SFn, SChan:
		return T{"nil_" + string(so), so}
	}
	return T{"nil_" + sanitize(string(so)), so}
}

// Query is one SMT problem: decls+hyps, negated goal (or, for covers, just satisfiability).
type Query struct {
	Name      string // obligation name
	Sub       string // path / conjunct qualifier
	Text      string // complete SMT-LIB text
	Cover     bool   // expected sat
	Goal      string // human readable goal
	Pos       string // source position
	Func      string
	Props     []string
	Clause    string // contract clause text (for hashing / reporting)
	FalseGoal bool
	Exit      *ExitInfo // the function exit this query was generated at (for replay)
}

type Verdict struct {
	Q       *Query
	Result  string // unsat | sat | unknown | timeout
	Backend string
	Secs    float64
	Model   string
	Raw     string
	Bytes   int
}

type solverSpec struct {
	name string
	args func(file string, timeout time.Duration) []string
}

var solvers = []solverSpec{
	{"z3-4.8.12", func(f string, to time.Duration) []string {
		return []string{"/usr/bin/z3", fmt.Sprintf("-T:%d", int(to.Seconds())+1), f}
	}},
	{"z3-5.1.0", func(f string, to time.Duration) []string {
		return []string{"z3-new", fmt.Sprintf("-T:%d", int(to.Seconds())+1), f}
	}},
	{"cvc5-1.0", func(f string, to time.Duration) []string {
		return []string{"cvc5", "--produce-models", fmt.Sprintf("--tlimit=%d", int(to.Milliseconds())), f}
	}},
}

var solverOK = map[string]bool{}

func detectSolvers() {
	for _, s := range solvers {
		a := s.args("x", time.Second)
		if _, err := exec.LookPath(a[0]); err == nil {
			solverOK[s.name] = true
		}
	}
}

// runQuery runs one query: first on the primary solver alone (short budget), then races the
// remaining installed solvers; first definite answer wins.
func runQuery(dir string, q *Query, timeout time.Duration, wantModel bool) Verdict {
	fn := filepath.Join(dir, sanitize(q.Name+"_"+q.Sub)+".smt2")
	text := q.Text
	if wantModel {
		text += "(get-model)\n"
	}
	os.WriteFile(fn, []byte(text), 0o644)
	type res struct {
		name string
		out  string
		secs float64
	}
	v := Verdict{Q: q, Result: "unknown", Bytes: len(text)}
	var raws []string
	total := 0.0
	race := func(set []solverSpec, to time.Duration) bool {
		ctx, cancel := context.WithTimeout(context.Background(), to+2*time.Second)
		defer cancel()
		ch := make(chan res, len(set))
		n := 0
		for _, s := range set {
			if !solverOK[s.name] {
				continue
			}
			n++
			go func(s solverSpec) {
				a := s.args(fn, to)
				t0 := time.Now()
				cmd := exec.CommandContext(ctx, a[0], a[1:]...)
				var buf bytes.Buffer
				cmd.Stdout = &buf
				cmd.Stderr = &buf
				cmd.Run()
				ch <- res{s.name, buf.String(), time.Since(t0).Seconds()}
			}(s)
		}
		worst := 0.0
		for i := 0; i < n; i++ {
			r := <-ch
			first := strings.TrimSpace(strings.SplitN(r.out, "\n", 2)[0])
			raws = append(raws, r.name+": "+truncate(r.out, 300))
			if first == "unsat" || first == "sat" {
				v.Result = first
				v.Backend = r.name
				total += r.secs
				if first == "sat" {
					if i := strings.Index(r.out, "\n"); i >= 0 {
						v.Model = r.out[i+1:]
					}
				}
				return true
			}
			if worst < r.secs {
				worst = r.secs
			}
		}
		total += worst
		return false
	}
	primaryTO := timeout
	if primaryTO > 3*time.Second {
		primaryTO = 3 * time.Second
	}
	if !race(solvers[1:2], primaryTO) && !q.Cover {
		race([]solverSpec{solvers[0], solvers[2], solvers[1]}, timeout)
	}
	v.Secs = total
	v.Raw = strings.Join(raws, "\n")
	if v.Result == "unknown" && total >= timeout.Seconds() {
		v.Result = "timeout"
	}
	return v
}

func truncate(s string, n int) string {
	if len(s) > n {
		return s[:n] + "…"
	}
	return s
}

// runAll discharges queries in parallel.
func runAll(dir string, qs []*Query, timeout time.Duration, par int) []Verdict {
	out := make([]Verdict, len(qs))
	var wg sync.WaitGroup
	sem := make(chan struct{}, par)
	for i, q := range qs {
		wg.Add(1)
		sem <- struct{}{}
		go func(i int, q *Query) {
			defer wg.Done()
			defer func() { <-sem }()
			v := runQuery(dir, q, timeout, false)
			if !q.Cover && v.Result != "unsat" && q.FalseGoal {
				v.Result = "sat"
				v.Raw = "goal is literally false on this path and the path is not refuted: " + q.Goal
			} else if !q.Cover && v.Result != "unsat" && !(v.Result != "sat" && os.Getenv("GOBV_NO_REPLAY") != "") {
				// retry once with 6x timeout and ask for a model
				v2 := runQuery(dir, q, 3*timeout, true)
				v2.Secs += v.Secs
				v = v2
			}
			out[i] = v
		}(i, q)
	}
	wg.Wait()
	return out
}

// crossCheck re-runs queries that one solver refuted (unsat) on a different solver. It returns how many were
// re-checked, how many the second solver also refuted, and the names of those it claims satisfiable.
func crossCheck(dir string, vs []Verdict, timeout time.Duration, par int) (checked, agreed int, disagree []string) {
	type job struct{ v Verdict }
	var mu sync.Mutex
	var wg sync.WaitGroup
	sem := make(chan struct{}, par)
	for _, v := range vs {
		if v.Result != "unsat" || v.Q == nil || v.Q.Cover || v.Q.Text == "" || v.Backend == "syntactic" || v.Backend == "none" {
			continue
		}
		other := solvers[2] // cvc5
		if v.Backend == "cvc5-1.0" || !solverOK[other.name] {
			other = solvers[1]
			if v.Backend == other.name {
				other = solvers[0]
			}
		}
		if !solverOK[other.name] {
			continue
		}
		wg.Add(1)
		sem <- struct{}{}
		go func(v Verdict, other solverSpec) {
			defer wg.Done()
			defer func() { <-sem }()
			fn := filepath.Join(dir, "x_"+sanitize(v.Q.Name+"_"+v.Q.Sub)+".smt2")
			os.WriteFile(fn, []byte(v.Q.Text), 0o644)
			defer os.Remove(fn)
			ctx, cancel := context.WithTimeout(context.Background(), timeout+2*time.Second)
			defer cancel()
			a := other.args(fn, timeout)
			out, _ := exec.CommandContext(ctx, a[0], a[1:]...).Output()
			first := strings.TrimSpace(strings.SplitN(string(out), "\n", 2)[0])
			mu.Lock()
			defer mu.Unlock()
			checked++
			switch first {
			case "unsat":
				agreed++
			case "sat":
				disagree = append(disagree, fmt.Sprintf("%s %s: %s unsat, %s sat", v.Q.Name, v.Q.Sub, v.Backend, other.name))
			}
		}(v, other)
	}
	wg.Wait()
	sort.Strings(disagree)
	return
}
