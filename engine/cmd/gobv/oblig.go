package main

import (
	"fmt"
	"go/ast"
	"go/token"
	"go/types"
	"sort"
	"strings"

	"golang.org/x/tools/go/ssa"
)

// goalItem is one conjunct of a goal after splitting: hyps => atom.
type goalItem struct {
	hyps []T
	atom T
	sub  string
}

// splitGoal walks the top-level structure of a goal expression: conjunctions are split into separate
// queries, antecedents of implications become hypotheses, universally quantified goals are skolemised.
func (c *SpecCtx) splitGoal(x ast.Expr, hyps []T, sub string, out *[]goalItem) {
	switch n := x.(type) {
	case *ast.ParenExpr:
		c.splitGoal(n.X, hyps, sub, out)
		return
	case *ast.BinaryExpr:
		if n.Op == token.LAND {
			c.splitGoal(n.X, hyps, sub+"a", out)
			c.splitGoal(n.Y, hyps, sub+"b", out)
			return
		}
	case *ast.CallExpr:
		if id, ok := n.Fun.(*ast.Ident); ok {
			switch id.Name {
			case "implies":
				h := c.boolTerm(n.Args[0])
				c.splitGoal(n.Args[1], append(append([]T(nil), hyps...), h), sub, out)
				return
			case "all":
				if len(n.Args) == 4 {
					if v, ok := n.Args[0].(*ast.Ident); ok {
						lo, hi := c.intArg(n.Args[1]), c.intArg(n.Args[2])
						sk := c.e.freshConst("sk_"+v.Name, SInt)
						s2 := c.sub()
						s2.vars[v.Name] = SV{V: sk, T: types.Typ[types.Int]}
						h := And(App(SBool, "<=", lo, sk), App(SBool, "<", sk, hi))
						s2.splitGoal(n.Args[3], append(append([]T(nil), hyps...), h), sub, out)
						return
					}
				}
			case "forall":
				if v, ok := n.Args[0].(*ast.Ident); ok {
					so := ghostSort(c.e, exprString(n.Args[1]))
					sk := c.e.freshConst("sk_"+v.Name, so)
					s2 := c.sub()
					var ty types.Type
					body := n.Args[2]
					if len(n.Args) == 4 {
						ty = c.lookupType(exprString(n.Args[2]))
						body = n.Args[3]
					} else if so == SInt {
						ty = types.Typ[types.Int]
					}
					s2.vars[v.Name] = SV{V: sk, T: ty}
					s2.splitGoal(body, hyps, sub, out)
					return
				}
			case "unchanged":
				if len(n.Args) > 1 {
					for i, a := range n.Args {
						c.splitGoal(&ast.CallExpr{Fun: n.Fun, Args: []ast.Expr{a}}, hyps, fmt.Sprintf("%s%d", sub, i), out)
					}
					return
				}
			}
		}
	}
	*out = append(*out, goalItem{hyps: hyps, atom: c.boolTerm(x), sub: sub})
}

func (e *Engine) specCtx(st *State, fr *Frame) *SpecCtx {
	c := &SpecCtx{e: e, st: st, fr: fr, vars: map[string]SV{}}
	if st.OldSet {
		c.old = st.OldHeap
	}
	return c
}

// clauseCtx builds the evaluation context of a clause of the function executing in frame fr.
func (e *Engine) clauseCtx(st *State, fr *Frame, extra map[string]SV) *SpecCtx {
	c := e.specCtx(st, fr)
	c.entry = map[string]SV{}
	if fr != nil {
		sig := fr.Fn.Signature
		for i, p := range fr.Fn.Params {
			if i < len(fr.Args) {
				c.entry[p.Name()] = SV{V: fr.Args[i], T: p.Type()}
			}
		}
		_ = sig
		// free variables of closures, by name (cells: current value)
		for i, fv := range fr.Fn.FreeVars {
			if i < len(fr.Binds) {
				if a, ok := fr.Binds[i].(*Addr); ok && a.Kind == ACell {
					if _, dup := fr.Cells[fv.Name()]; !dup {
						fr.Cells[fv.Name()] = a.Cell
					}
					// fv_<name> always denotes the captured variable, even when a local shadows it
					fr.Cells["fv_"+fv.Name()] = a.Cell
				} else if t, ok := fr.Binds[i].(T); ok {
					// pointer to a struct local of the parent
					c.vars[fv.Name()] = SV{V: t, T: fv.Type()}
				}
			}
		}
	}
	for k, v := range extra {
		c.vars[k] = v
	}
	return c
}

func (e *Engine) evalClause(st *State, fr *Frame, cl *Clause, extra map[string]SV) T {
	x, err := parseSpec(cl.Expr)
	if err != nil {
		e.fail("%v", err)
		return True
	}
	c := e.clauseCtx(st, fr, extra)
	c.inLoop = cl.Kind == "loop" || cl.Kind == "cut" || cl.Kind == "at-call"
	return c.boolTerm(x)
}

// obligationClause emits the obligations for one contract clause in state st.
func (e *Engine) obligationClause(st *State, fr *Frame, name string, cl *Clause, extra map[string]SV) {
	x, err := parseSpec(cl.Expr)
	if err != nil {
		e.fail("%v", err)
		return
	}
	c := e.clauseCtx(st, fr, extra)
	c.inLoop = cl.Kind == "loop" || cl.Kind == "cut" || cl.Kind == "at-call"
	var items []goalItem
	nerr := len(e.errors)
	c.splitGoal(x, nil, "", &items)
	if len(e.errors) > nerr {
		// the clause could not be evaluated against the current source: report as not generable
		e.emitBroken(st, name, cl, strings.Join(e.errors[nerr:], "; "))
		return
	}
	for _, it := range items {
		e.emitWith(st, name, it.sub, it.hyps, it.atom, cl.Expr, e.framePos(fr), cl.Props, cl)
	}
}

func (e *Engine) framePos(fr *Frame) string {
	if fr == nil || fr.Block == nil {
		return ""
	}
	for i := fr.PC - 1; i >= 0 && i < len(fr.Block.Instrs); i-- {
		if p := e.posOf(fr.Block.Instrs[i]); p != "" {
			return p
		}
	}
	return ""
}

func (e *Engine) emit(st *State, name string, goal T, text, pos string, props []string, clause string) {
	e.emitWith(st, name, "", nil, goal, text, pos, props, nil)
}

var pathSeq = map[string]int{}

func (e *Engine) emitWith(st *State, name, sub string, extraHyps []T, goal T, text, pos string, props []string, cl *Clause) {
	var b strings.Builder
	b.WriteString(smtPreamble)
	for _, d := range e.decls {
		b.WriteString(d)
		b.WriteString("\n")
	}
	e.writeDistinct(&b)
	var body strings.Builder
	for _, h := range st.Hyps {
		fmt.Fprintf(&body, "(assert %s)\n", h.S)
	}
	for _, h := range extraHyps {
		fmt.Fprintf(&body, "(assert %s)\n", h.S)
	}
	fmt.Fprintf(&body, "(assert (not %s))\n(check-sat)\n", goal.S)
	// function values built from a function or a function literal are never nil (stated only for those the query
	// mentions: every extra constant makes model finding for failing goals slower)
	if len(e.closures) > 0 {
		bs := b.String() + body.String()
		var ks []string
		for k := range e.closures {
			// mentioned somewhere besides its own declaration (hypotheses, goal or a heap update)
			if strings.HasPrefix(k, "fn_") && strings.Count(bs, k) >= 2 {
				ks = append(ks, k)
			}
		}
		sort.Strings(ks)
		for _, k := range ks {
			fmt.Fprintf(&b, "(assert (not (= %s nil_Fn)))\n", k)
		}
	}
	b.WriteString(body.String())
	pathSeq[name]++
	q := &Query{Name: name, Sub: fmt.Sprintf("p%d%s", pathSeq[name], sub), Text: b.String(), Goal: text, Pos: pos, Func: e.curFn, Exit: e.curExit}
	q.Props = append(q.Props, props...)
	if cl != nil {
		q.Clause = cl.Hash()
	} else if len(props) > 0 {
		// automatic obligation (lockset, order, alias, ...): it also belongs to the properties its function serves
		if b := e.cs.Funcs[e.curFn]; b != nil {
			for _, p := range b.Props() {
				if !hasProp(q.Props, p) {
					q.Props = append(q.Props, p)
				}
			}
		}
	}
	if goal.S == "true" {
		q.Text = "" // trivially discharged
	}
	if goal.S == "false" {
		q.FalseGoal = true // fails unless the path is infeasible; an undecided feasibility query counts as failed, no retry
	}
	e.queries = append(e.queries, q)
}

func (e *Engine) emitBroken(st *State, name string, cl *Clause, why string) {
	q := &Query{Name: name, Sub: "broken", Text: "BROKEN", Goal: cl.Expr + " -- not generable: " + why, Func: e.curFn, Props: cl.Props, Clause: cl.Hash()}
	e.queries = append(e.queries, q)
}

// writeDistinct: string literals denote pairwise different values.
func (e *Engine) writeDistinct(b *strings.Builder) {
	if len(e.strConsts) < 2 {
		return
	}
	var names []string
	for _, n := range e.strConsts {
		names = append(names, n)
	}
	sort.Strings(names)
	fmt.Fprintf(b, "(assert (distinct %s))\n", strings.Join(names, " "))
}

// emitCover: the hypotheses so far must be satisfiable.
func (e *Engine) emitCover(st *State, name string, text string) {
	var b strings.Builder
	b.WriteString(smtPreamble)
	for _, d := range e.decls {
		b.WriteString(d)
		b.WriteString("\n")
	}
	for _, h := range st.Hyps {
		fmt.Fprintf(&b, "(assert %s)\n", h.S)
	}
	b.WriteString("(check-sat)\n")
	pathSeq[name]++
	e.queries = append(e.queries, &Query{Name: name, Sub: fmt.Sprintf("p%d", pathSeq[name]), Text: b.String(), Cover: true, Goal: text, Func: e.curFn})
}

// safety emits an automatic safe:<kind>#n obligation; n is the ordinal of the instruction among the
// instructions of the same kind in its function (source order), so unrelated edits do not rename it.
func (e *Engine) safety(st *State, fr *Frame, in ssa.Instruction, kind string, goal T, text string) {
	if goal.S == "true" {
		return
	}
	ord := e.instrOrdinal(fr.Fn, in, kind)
	name := fmt.Sprintf("%s/safe:%s#%d", e.fnName[fr.Fn], kind, ord)
	e.emitWith(st, name, "", nil, goal, text, e.posOf(in), nil, nil)
}

func (r *Run) safeNil(st *State, fr *Frame, in ssa.Instruction, base T) {
	e := r.e
	if !e.safeNilOn {
		return
	}
	if r.isFresh(st, base) {
		return
	}
	e.safety(st, fr, in, "nil", Not(Eq(base, NilOf(SRef))), "non-nil dereference at "+e.posOf(in))
}

var ordCache = map[*ssa.Function]map[ssa.Instruction]int{}

func (e *Engine) instrOrdinal(fn *ssa.Function, in ssa.Instruction, kind string) int {
	m := ordCache[fn]
	if m == nil {
		m = map[ssa.Instruction]int{}
		counts := map[string]int{}
		for _, b := range fn.Blocks {
			for _, i := range b.Instrs {
				k := fmt.Sprintf("%T", i)
				m[i] = counts[k]
				counts[k]++
			}
		}
		ordCache[fn] = m
	}
	return m[in]
}
