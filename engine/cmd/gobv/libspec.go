package main

import (
	"fmt"
	"go/types"
	"strings"

	"golang.org/x/tools/go/ssa"
)

// Trusted specifications of the standard library (DESIGN §4). Every entry used is recorded in e.libUsed
// and reported in the evidence's trusted base.

func (r *Run) libCall(st *State, fr *Frame, name string, recv Val, args []Val, sig *types.Signature, dst ssa.Value, in ssa.Instruction, cc *ssa.CallCommon) []*State {
	e := r.e
	name = strings.ReplaceAll(name, "github.com/joeycumines/go-bigbuff.", "")
	// interface methods of the package with an abstract contract or a concrete binding
	if e.cs.Funcs[name] != nil || e.ifaceBind[name] != "" {
		r.atCall(st, fr, name, append([]Val{recv}, args...), nil, in)
	}
	if blk := e.cs.Funcs[name]; blk != nil {
		return r.applyIfaceContract(st, fr, name, blk, recv, args, sig, dst, in)
	}
	if target, ok := e.ifaceBind[name]; ok {
		fn := e.funcs[target]
		if fn == nil {
			e.fail("iface binding %s -> %s: no such function", name, target)
		} else {
			rt := fn.Signature.Recv().Type()
			tk := sanitize(typeKey(rt))
			a := e.asTerm(recv, SAny)
			ref := App(SRef, e.namedFun("unbox_"+tk, []Sort{SAny}, SRef), a)
			e.note("interface call %s is bound to %s (the field is only ever assigned a value of that type in non-test code)", name, target)
			return r.callFunction(st, fr, fn, nil, append([]Val{ref}, args...), dst, in, cc)
		}
	}
	e.libUsed[name] = true
	st.Counters["calls:"+name] = App(SInt, "+", r.counter(st, "calls:"+name), IntLit(1))
	r.atCall(st, fr, name, args, sig, in)
	ret := func(vs ...Val) []*State {
		for i, v := range vs {
			st.Ghost[fmt.Sprintf("ires:%s:%d", name, i)] = v // ilast("pkg.Func", i)
		}
		r.setResult(st, fr, dst, vs)
		r.afterCall(st, fr, name, args, vs, sig, in)
		return nil
	}
	switch name {
	// ---------------------------------------------------------------- sync
	case "(*sync.Mutex).Lock", "(*sync.RWMutex).Lock":
		r.acquire(st, fr, r.lockOf(st, recv), LockW, in)
		return ret()
	case "(*sync.RWMutex).RLock":
		r.acquire(st, fr, r.lockOf(st, recv), LockR, in)
		return ret()
	case "(*sync.Mutex).Unlock", "(*sync.RWMutex).Unlock":
		r.release(st, fr, r.lockOf(st, recv), LockW, in)
		return ret()
	case "(*sync.RWMutex).RUnlock":
		r.release(st, fr, r.lockOf(st, recv), LockR, in)
		return ret()
	case "(*sync.RWMutex).TryRLock", "(*sync.Mutex).TryLock", "(*sync.RWMutex).TryLock":
		ok := e.freshConst("trylock", SBool)
		other := st.clone()
		st.assume(ok)
		mode := LockW
		if strings.HasSuffix(name, "TryRLock") {
			mode = LockR
		}
		r.acquire(st, fr, r.lockOf(st, recv), mode, in)
		r.setResult(st, fr, dst, []Val{True})
		other.assume(Not(ok))
		r.setResult(other, other.top(), dst, []Val{False})
		return []*State{other}
	case "(sync.Locker).Lock":
		r.acquire(st, fr, r.lockerOf(st, recv), LockW, in)
		return ret()
	case "(sync.Locker).Unlock":
		r.release(st, fr, r.lockerOf(st, recv), LockW, in)
		return ret()
	case "sync.NewCond":
		c := e.freshConst("newcond", SRef)
		st.assume(Not(Eq(c, NilOf(SRef))))
		l := e.asTerm(args[0], SAny)
		st.assume(Eq(e.condLocker(st, c), r.lockerRef(l)))
		e.region(st, "Cond.L", []Sort{SRef}, SAny)
		e.regionWrite1(st, "Cond.L", SAny, c, l)
		return ret(c)
	case "(*sync.Cond).Wait":
		return r.condWait(st, fr, e.asTerm(recv, SRef), in, dst)
	case "(*sync.Cond).Broadcast", "(*sync.Cond).Signal":
		// Signal wakes at most ONE waiter: it does not discharge the duty to notify everybody who may be waiting for the
		// changed state (the monitors of this package have several waiters with different predicates)
		r.condNotify(st, fr, e.asTerm(recv, SRef), in, name == "(*sync.Cond).Broadcast")
		return ret()
	case "(*sync.Once).Do":
		return r.onceDo(st, fr, e.asTerm(recv, SRef), args[0], in, dst)
	case "(*sync.WaitGroup).Add":
		r.wgAdd(st, fr, e.asTerm(recv, SRef), r.toInt(e.asTerm(args[0], e.sortOf(types.Typ[types.Int])), types.Typ[types.Int]), in)
		return ret()
	case "(*sync.WaitGroup).Done":
		r.wgAdd(st, fr, e.asTerm(recv, SRef), IntLit(-1), in)
		return ret()
	case "(*sync.WaitGroup).Wait":
		r.yield(st, fr, in, "wg.Wait")
		st.Facts["wgwait:"+e.asTerm(recv, SRef).S] = e.posOf(in)
		return ret()
	// ---------------------------------------------------------------- errors / fmt
	case "errors.New", "fmt.Errorf":
		v := e.freshConst("err", SAny)
		st.assume(Not(Eq(v, NilOf(SAny))))
		return ret(v)
	case "fmt.Sprintf", "(time.Duration).String", "(reflect.Kind).String", "(reflect.ChanDir).String", "(error).Error":
		return ret(e.freshConst("str", SStr))
	// ---------------------------------------------------------------- context
	case "(context.Context).Err":
		ctx := e.asTerm(recv, SAny)
		// a method call on a nil interface value panics
		e.safety(st, fr, in, "nilctx", Not(Eq(ctx, NilOf(SAny))), "ctx.Err() on a non-nil context at "+e.posOf(in))
		r.ctxStep(st)
		err := e.freshConst("ctxerr", SAny)
		st.assume(Eq(Not(Eq(err, NilOf(SAny))), r.cancelled(st, ctx)))
		st.Ghost["errof:"+err.S] = ctx
		st.Ghost["ctxerr.last:"+ctx.S] = err
		return ret(err)
	case "(context.Context).Done":
		ctx := e.asTerm(recv, SAny)
		e.safety(st, fr, in, "nilctx", Not(Eq(ctx, NilOf(SAny))), "ctx.Done() on a non-nil context at "+e.posOf(in))
		fn := e.namedFun("ctxdone", []Sort{SAny}, SChan)
		ch := App(SChan, fn, ctx)
		e.doneOf[ch.S] = ctx
		return ret(ch)
	case "context.Background":
		bg := T{e.namedFun("ctx_background", nil, SAny), SAny}
		st.assume(Not(Eq(bg, NilOf(SAny))))
		r.ctxNever(st, bg)
		return ret(bg)
	case "context.WithCancel":
		p := e.asTerm(args[0], SAny)
		// context.WithCancel panics on a nil parent ("cannot create context from nil parent")
		e.safety(st, fr, in, "nilctx", Not(Eq(p, NilOf(SAny))), "context.WithCancel of a non-nil parent at "+e.posOf(in))
		c := e.freshConst("ctx", SAny)
		st.assume(Not(Eq(c, NilOf(SAny))))
		st.assume(Not(Eq(c, p)))
		r.ctxLink(st, p, c)
		// cancelled(c) now iff cancelled(p) now
		r.ctxStep(st)
		st.assume(Eq(r.cancelled(st, c), r.cancelled(st, p)))
		st.assume(Eq(r.ctxValues(c), r.ctxValues(p)))
		f := e.freshConst("cancelfn", SFn)
		st.assume(Not(Eq(f, NilOf(SFn))))
		r.assumeFreshTerm(st, f)
		r.assumeFreshTerm(st, c)
		e.methods[f.S] = &BoundMethod{Name: "context.CancelFunc", Recv: c, Term: f}
		e.regionWrite1(st, "cnt.calls", SInt, f, IntLit(0)) // a new function value has not been called yet
		st.Ghost["mustcall:"+f.S] = T{"pending", "Opaque"}
		if le, ok := st.Ghost["ctxerr.last:"+p.S]; ok {
			// derived just now: cancelled exactly when the parent was at its last check
			st.Ghost["ctxerr.last:"+c.S] = le
		}
		return ret(c, f)
	case "context.CancelFunc":
		c := e.asTerm(recv, SAny)
		e.region(st, "ctx.cancelled", []Sort{SAny}, SBool)
		e.regionWrite1(st, "ctx.cancelled", SBool, c, True)
		st.Counters["cancelcalls:"+c.S] = App(SInt, "+", r.counter(st, "cancelcalls:"+c.S), IntLit(1))
		return ret()
	case "context.WithoutCancel":
		p := e.asTerm(args[0], SAny)
		e.safety(st, fr, in, "nilctx", Not(Eq(p, NilOf(SAny))), "context.WithoutCancel of a non-nil parent at "+e.posOf(in))
		c := e.freshConst("ctxnc", SAny)
		st.assume(Not(Eq(c, NilOf(SAny))))
		r.ctxNever(st, c)
		st.assume(Eq(r.ctxValues(c), r.ctxValues(p)))
		return ret(c)
	case "context.AfterFunc":
		// the hook runs in its own goroutine once ctx is cancelled (possibly immediately)
		ctx := e.asTerm(args[0], SAny)
		var hook T
		switch f := args[1].(type) {
		case *Closure:
			r.shareClosure(st, f, "AfterFunc")
			hook = f.Term
		default:
			hook = e.asTerm(args[1], SFn)
		}
		for _, o := range st.Fresh {
			st.Escaped[o.S] = true
		}
		stop := e.freshConst("stopfn", SFn)
		st.assume(Not(Eq(stop, NilOf(SFn))))
		r.assumeFreshTerm(st, stop)
		e.methods[stop.S] = &BoundMethod{Name: "context.afterFuncStop", Recv: hook, Term: stop}
		e.regionWrite1(st, "cnt.calls", SInt, stop, IntLit(0))
		st.Ghost["afterfunc:"+stop.S] = &TupleV{V: []Val{ctx, hook}}
		k := "afterfuncs"
		st.Counters[k] = App(SInt, "+", r.counter(st, k), IntLit(1))
		return ret(stop)
	case "context.afterFuncStop":
		b := e.freshConst("stopped", SBool)
		if r.curBound.S != "" {
			st.Ghost["res:"+r.curBound.S+":0"] = b
		}
		return ret(b)
	// ---------------------------------------------------------------- time
	case "time.Now":
		return ret(e.freshVal(st, sig.Results().At(0).Type(), "now"))
	case "time.Since", "(time.Time).Sub":
		return ret(e.freshVal(st, sig.Results().At(0).Type(), "dur"))
	case "(time.Time).Add":
		return ret(e.freshVal(st, sig.Results().At(0).Type(), "time"))
	case "time.Sleep":
		r.yield(st, fr, in, "sleep")
		return ret()
	case "time.NewTimer", "time.NewTicker":
		t := e.freshConst("timer", SRef)
		st.assume(Not(Eq(t, NilOf(SRef))))
		// ghost: a new timer/ticker is running (stopped(t) is false until Stop is called on it)
		e.region(st, "timer.stopped", []Sort{SRef}, SBool)
		e.regionWrite1(st, "timer.stopped", SBool, t, False)
		return ret(t)
	case "(*time.Timer).Stop":
		if recv != nil {
			e.region(st, "timer.stopped", []Sort{SRef}, SBool)
			e.regionWrite1(st, "timer.stopped", SBool, e.asTerm(recv, SRef), True)
		}
		return ret(e.freshConst("stopped", SBool))
	case "(*time.Ticker).Stop":
		if recv != nil {
			e.region(st, "timer.stopped", []Sort{SRef}, SBool)
			e.regionWrite1(st, "timer.stopped", SBool, e.asTerm(recv, SRef), True)
		}
		return ret()
	// ---------------------------------------------------------------- math/rand
	case "math/rand.Int63n":
		n := e.asTerm(args[0], e.sortOf(types.Typ[types.Int64]))
		var pos, lo, hi T
		res := e.freshConst("rand", n.So)
		if n.So.IsBV() {
			pos = App(SBool, "bvsgt", n, BVLit(0, 64))
			lo = App(SBool, "bvsle", BVLit(0, 64), res)
			hi = App(SBool, "bvslt", res, n)
		} else {
			pos = App(SBool, ">", n, IntLit(0))
			lo = App(SBool, "<=", IntLit(0), res)
			hi = App(SBool, "<", res, n)
		}
		e.safety(st, fr, in, "Int63n", pos, "rand.Int63n argument > 0 at "+e.posOf(in))
		st.assume(pos)
		st.assume(lo)
		st.assume(hi)
		st.Ghost["rand.last"] = res
		return ret(res)
	}
	if strings.HasPrefix(name, "(*sync/atomic.") {
		return r.atomicOp(st, fr, name, e.asTerm(recv, SRef), args, sig, dst, in)
	}
	if fs := r.reflectCall(st, fr, name, recv, args, sig, dst, in); fs != nil || e.handled {
		e.handled = false
		return fs
	}
	// unknown external: results unconstrained, no effect on package state
	e.note("external function %s has no specification: results unconstrained, assumed not to touch package state", name)
	return ret(r.freshResults(st, sig, "ext")...)
}

func (r *Run) lockerRef(l T) T {
	fn := r.e.namedFun("lockerRef", []Sort{SAny}, SRef)
	return App(SRef, fn, l)
}

// lockerOf identifies the lock behind a sync.Locker interface value.
func (r *Run) lockerOf(st *State, recv Val) LockRef {
	e := r.e
	a := e.asTerm(recv, SAny)
	if la, ok := e.loaded[a.S]; ok && la.Region == "Cond.L" {
		// cond.L: the lock is the one the cond is declared to stand for
		cond := la.Ref
		lr := LockRef{Key: e.condLocker(st, cond)}
		if ca, ok := e.loaded[cond.S]; ok {
			parts := strings.SplitN(ca.Region, ".", 2)
			if len(parts) == 2 {
				lr.Owner, lr.Field, lr.Base = parts[0], parts[1], ca.Ref
				lr.Class = ca.Region
				if lk := e.condLockField(parts[0], parts[1]); lk != "" && lk != parts[1] {
					// the cond stands for another lock field of the same object
					if t := r.typeOfOwner(parts[0]); t != nil {
						if k, ok := r.lockKeyOf(st, t, parts[0], lk, ca.Ref); ok {
							lr.Key = k
							lr.Field = lk
							lr.Class = parts[0] + "." + lk
						}
					}
				}
			}
		}
		return lr
	}
	return LockRef{Key: r.lockerRef(a)}
}

// condLockField: `cond <condfield> : <lockfield>` in a type block.
func (e *Engine) condLockField(owner, condField string) string {
	tb := e.cs.Types[owner]
	if tb == nil {
		return ""
	}
	for _, cl := range tb.All("cond") {
		if len(cl.Words) >= 1 && cl.Words[0] == condField {
			return strings.TrimSpace(cl.Expr)
		}
	}
	return ""
}

// condLockRef finds the lock a cond pointer (loaded from a declared cond field) stands for.
func (r *Run) condLockRef(st *State, cond T) (LockRef, bool) {
	e := r.e
	ca, ok := e.loaded[cond.S]
	if !ok {
		return LockRef{Key: e.condLocker(st, cond)}, false
	}
	parts := strings.SplitN(ca.Region, ".", 2)
	if len(parts) != 2 {
		return LockRef{Key: e.condLocker(st, cond)}, false
	}
	lk := e.condLockField(parts[0], parts[1])
	if lk == "" {
		return LockRef{Key: e.condLocker(st, cond)}, false
	}
	t := r.typeOfOwner(parts[0])
	if t == nil {
		return LockRef{}, false
	}
	key, ok := r.lockKeyOf(st, t, parts[0], lk, ca.Ref)
	if !ok {
		return LockRef{}, false
	}
	return LockRef{Class: parts[0] + "." + lk, Owner: parts[0], Field: lk, Base: ca.Ref, Key: key}, true
}

func (r *Run) heldIdx(st *State, key T, needW bool) int {
	for i := len(st.Locks) - 1; i >= 0; i-- {
		if st.Locks[i].Key.S == key.S && (!needW || st.Locks[i].Mode == LockW) {
			return i
		}
	}
	return -1
}

func (r *Run) condWait(st *State, fr *Frame, cond T, in ssa.Instruction, dst ssa.Value) []*State {
	e := r.e
	lr, known := r.condLockRef(st, cond)
	ord := e.callOrdinalKind(fr.Fn, in)
	name := fmt.Sprintf("%s/safe:condwait#%d", e.fnName[fr.Fn], ord)
	if !known {
		// a cond this function knows nothing about (e.g. WaitCond's parameter): its Locker must be held;
		// nothing else is known about the state it guards
		g := False
		if r.heldIdx(st, e.condLocker(st, cond), true) >= 0 {
			g = True
		}
		e.emitWith(st, name, "", nil, g, "cond.Wait with the cond's Locker held at "+e.posOf(in), e.posOf(in), []string{"C05", "C11"}, nil)
		r.yield(st, fr, in, "cond.Wait")
		r.setResult(st, fr, dst, nil)
		return nil
	}
	e.safety(st, fr, in, "nilcond", Not(Eq(cond, NilOf(SRef))), "cond.Wait on a non-nil *sync.Cond at "+e.posOf(in))
	held := r.heldIdx(st, lr.Key, true) >= 0
	g := False
	if held {
		g = True
	}
	e.emitWith(st, name, "", nil, g, "cond.Wait with its lock held exclusively at "+e.posOf(in), e.posOf(in), []string{"C05", "C11"}, nil)
	// release: invariant must hold; re-acquire: havoc + assume
	r.assertInvariants(st, fr, lr.Owner, lr.Field, lr.Base, in, "wait")
	r.yield(st, fr, in, "cond.Wait")
	r.havocGuardedOf(st, lr.Owner, lr.Field, lr.Base)
	r.assumeInvariants(st, lr.Owner, lr.Field, lr.Base)
	r.assumeRely(st, fr, lr)
	r.setResult(st, fr, dst, nil)
	return nil
}

func (r *Run) condBroadcast(st *State, fr *Frame, cond T, in ssa.Instruction) {
	r.condNotify(st, fr, cond, in, true)
}

func (r *Run) condNotify(st *State, fr *Frame, cond T, in ssa.Instruction, all bool) {
	e := r.e
	e.safety(st, fr, in, "nilcond", Not(Eq(cond, NilOf(SRef))), "Broadcast/Signal on a non-nil *sync.Cond at "+e.posOf(in))
	lr, known := r.condLockRef(st, cond)
	if known {
		ord := e.callOrdinalKind(fr.Fn, in)
		name := fmt.Sprintf("%s/bcast-locked#%d", e.fnName[fr.Fn], ord)
		g := False
		if r.heldIdx(st, lr.Key, false) >= 0 {
			g = True
		}
		e.emitWith(st, name, "", nil, g, "Broadcast issued while holding the cond's lock (no lost wake-up) at "+e.posOf(in), e.posOf(in), []string{"C05"}, nil)
		if !all {
			return
		}
		k := "bcast:" + lr.Class + ":" + lr.Base.S
		st.Counters[k] = App(SInt, "+", r.counter(st, k), IntLit(1))
		delete(st.Facts, "dirty:"+lr.Class+":"+lr.Base.S)
		for fk := range st.Facts {
			if strings.HasPrefix(fk, "dirtyf:"+lr.Class+":") && strings.HasSuffix(fk, ":"+lr.Base.S) {
				delete(st.Facts, fk)
			}
		}
	}
}

// Once.Do(f): done flag in a ghost region; f runs inline exactly when the flag was clear.
func (r *Run) onceDo(st *State, fr *Frame, once T, f Val, in ssa.Instruction, dst ssa.Value) []*State {
	e := r.e
	done := e.regionRead(st, "once.done", []Sort{SRef}, SBool, once)
	other := st.clone()
	// branch 1: already done -> no-op
	other.assume(done)
	r.setResult(other, other.top(), dst, nil)
	// branch 2: first call
	st.assume(Not(done))
	e.regionWrite1(st, "once.done", SBool, once, True)
	r.setResult(st, fr, dst, nil)
	cc := in.(ssa.CallInstruction).Common()
	fcc := &ssa.CallCommon{Value: cc.Args[len(cc.Args)-1]}
	forks := r.invoke(st, fr, fcc, f, nil, nil, in)
	return append(forks, other)
}

func (r *Run) wgAdd(st *State, fr *Frame, wg T, d T, in ssa.Instruction) {
	e := r.e
	n := e.regionRead(st, "wg.n", []Sort{SRef}, SInt, wg)
	st.assume(App(SBool, ">=", n, IntLit(0))) // A-LIB: a WaitGroup counter is never negative
	nn := App(SInt, "+", n, d)
	e.safety(st, fr, in, "wg", App(SBool, ">=", nn, IntLit(0)), "WaitGroup counter stays non-negative at "+e.posOf(in))
	e.regionWrite1(st, "wg.n", SInt, wg, nn)
}

// ---------------------------------------------------------------------------------------------
// context ghost state: region ctx.cancelled : Any -> Bool, monotone in time.

func (r *Run) cancelled(st *State, ctx T) T {
	return r.e.regionRead(st, "ctx.cancelled", []Sort{SAny}, SBool, ctx)
}

func (r *Run) ctxValues(ctx T) T {
	r.e.declSort("CtxValues")
	fn := r.e.namedFun("ctxvalues", []Sort{SAny}, "CtxValues")
	return App("CtxValues", fn, ctx)
}

func (r *Run) ctxLink(st *State, parent, child T) {
	st.Facts["ctxlink:"+parent.S+"=>"+child.S] = ""
	st.Ghost["ctxlink:"+parent.S+"=>"+child.S] = &TupleV{V: []Val{parent, child}}
}

func (r *Run) ctxNever(st *State, c T) {
	st.Ghost["ctxnever:"+c.S] = c
	st.assume(Not(r.cancelled(st, c)))
}

// ctxStep lets time pass: contexts may become cancelled, never un-cancelled.
func (r *Run) ctxStep(st *State) {
	e := r.e
	old := e.region(st, "ctx.cancelled", []Sort{SAny}, SBool)
	nw := e.freshFun("H_ctx.cancelled", []Sort{SAny}, SBool)
	st.Heap["ctx.cancelled"] = nw
	c := T{"c!q", SAny}
	st.assume(Forall([]T{c}, []T{App(SBool, nw, c)}, Implies(App(SBool, old, c), App(SBool, nw, c))))
	for k, v := range st.Ghost {
		if strings.HasPrefix(k, "ctxlink:") {
			tv := v.(*TupleV)
			st.assume(Implies(App(SBool, nw, tv.V[0].(T)), App(SBool, nw, tv.V[1].(T))))
		}
		if strings.HasPrefix(k, "ctxnever:") {
			st.assume(Not(App(SBool, nw, v.(T))))
		}
	}
}

// applyIfaceContract applies the abstract contract of an interface method (block "(Iface).Method").
func (r *Run) applyIfaceContract(st *State, fr *Frame, name string, blk *Block, recv Val, args []Val, sig *types.Signature, dst ssa.Value, in ssa.Instruction) []*State {
	e := r.e
	vars := map[string]SV{"self": {V: recv}}
	for i := 0; i < sig.Params().Len() && i < len(args); i++ {
		p := sig.Params().At(i)
		if p.Name() != "" {
			vars[p.Name()] = SV{V: args[i], T: p.Type()}
		}
		vars[fmt.Sprintf("arg%d", i)] = SV{V: args[i], T: p.Type()}
	}
	caller := e.fnName[fr.Fn]
	ord := e.callOrdinal(fr.Fn, in, name)
	mk := func(s *State, old map[string]string) *SpecCtx {
		c := e.specCtx(s, nil)
		c.entry = vars
		for k, v := range vars {
			c.vars[k] = v
		}
		c.old = old
		return c
	}
	for _, cl := range blk.All("requires") {
		x, err := parseSpec(cl.Expr)
		if err != nil {
			e.fail("%v", err)
			continue
		}
		c := mk(st, nil)
		var items []goalItem
		c.splitGoal(x, nil, "", &items)
		for _, it := range items {
			e.emitWith(st, fmt.Sprintf("%s/requires@%s#%d:%s", caller, name, ord, cl.Label()), it.sub, it.hyps, it.atom, cl.Expr, e.posOf(in), cl.Props, cl)
		}
		st.assume(c.boolTerm(x))
	}
	k := "calls:" + name
	st.Counters[k] = App(SInt, "+", r.counter(st, k), IntLit(1))
	var forks []*State
	if blk.First("maypanic") != nil && r.panicMatters(st) {
		p := st.clone()
		p.Panicking = true
		p.PanicVal = e.freshConst("panic_iface", SAny)
		p.Facts["panic.site"] = name + " at " + e.posOf(in)
		pf := p.top()
		pf.InDefers = true
		pf.AfterDef = 1
		forks = append(forks, p)
	}
	old := copyHeap(st.Heap)
	for _, as := range blk.All("assigns") {
		for _, w := range append(append([]string(nil), as.Words...), strings.Fields(as.Expr)...) {
			if strings.HasPrefix(w, "region:") {
				n := strings.TrimPrefix(w, "region:")
				for rn := range e.regions {
					if rn == n || strings.HasPrefix(rn, n+".") {
						e.havocRegion(st, rn)
					}
				}
			}
		}
	}
	for _, up := range blk.All("update") {
		r.applyUpdate(st, up, vars, old)
	}
	var res []Val
	for i := 0; i < sig.Results().Len(); i++ {
		v := e.freshVal(st, sig.Results().At(i).Type(), fmt.Sprintf("ret_%s_%d", sanitize(name), i))
		res = append(res, v)
		vars[fmt.Sprintf("ret%d", i)] = SV{V: v, T: sig.Results().At(i).Type()}
	}
	for i, v := range res {
		st.Ghost[fmt.Sprintf("ires:%s:%d", name, i)] = v
	}
	for _, cl := range blk.All("ensures") {
		if usesPathGhosts(cl.Expr) {
			continue
		}
		x, err := parseSpec(cl.Expr)
		if err != nil {
			e.fail("%v", err)
			continue
		}
		st.assume(mk(st, old).boolTerm(x))
	}
	for _, up := range blk.All("post-update") {
		r.applyUpdate(st, up, vars, old)
	}
	r.setResult(st, fr, dst, res)
	return forks
}

// applyUpdate: `update ghostname(args) := expr [if cond]` assigns a mutable ghost.
func (r *Run) applyUpdate(st *State, cl *Clause, vars map[string]SV, old map[string]string) {
	e := r.e
	parts := strings.SplitN(cl.Expr, ":=", 2)
	if len(parts) != 2 {
		e.fail("update clause needs `:=`: %s", cl.Expr)
		return
	}
	lhs := strings.TrimSpace(parts[0])
	rhs := strings.TrimSpace(parts[1])
	cond := ""
	if i := strings.LastIndex(rhs, " if "); i >= 0 {
		cond = strings.TrimSpace(rhs[i+4:])
		rhs = strings.TrimSpace(rhs[:i])
	}
	c := e.specCtx(st, nil)
	c.entry = vars
	for k, v := range vars {
		c.vars[k] = v
	}
	c.old = old
	lx, err := parseSpec(lhs)
	if err != nil {
		e.fail("%v", err)
		return
	}
	rx, err := parseSpec(rhs)
	if err != nil {
		e.fail("%v", err)
		return
	}
	r.assignGhost(st, c, lx, rx, cond)
}
