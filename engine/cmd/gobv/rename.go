package main

import (
	"fmt"
	"go/types"
	"regexp"
	"sort"
	"strings"

	"golang.org/x/tools/go/ssa"
)

// Rename tolerance. Contracts name parameters, results, captured variables and locals of the functions they
// annotate. A pure rename of such a variable in the source is a harmless edit; without help it would make
// the clauses that mention the old name impossible to generate. The baseline therefore records, for every
// function under contract, the ordered list of its variables (kind, type, name). When the current source has
// the same list up to names, the contract text of that function is read with the old names replaced by the
// new ones (and this is reported in the evidence). Anything else (a variable added, removed, retyped or
// reordered) is not a rename and is left alone.

type Sym struct {
	Kind string `json:"kind"` // param | result | free | local
	Type string `json:"type"`
	Name string `json:"name"`
}

func (e *Engine) symbolsOf(fn *ssa.Function) []Sym {
	var out []Sym
	_ = types.TypeString
	for _, p := range fn.Params {
		out = append(out, Sym{"param", canonType(p.Type(), 0), p.Name()})
	}
	res := fn.Signature.Results()
	for i := 0; i < res.Len(); i++ {
		out = append(out, Sym{"result", canonType(res.At(i).Type(), 0), res.At(i).Name()})
	}
	for _, fv := range fn.FreeVars {
		out = append(out, Sym{"free", canonType(fv.Type(), 0), fv.Name()})
	}
	for _, b := range fn.Blocks {
		for _, in := range b.Instrs {
			if al, ok := in.(*ssa.Alloc); ok && al.Comment != "" && !strings.Contains(al.Comment, ".") && !strings.Contains(al.Comment, " ") {
				out = append(out, Sym{"local", canonType(al.Type(), 0), al.Comment})
			}
		}
	}
	return out
}

func (e *Engine) allSymbols() map[string][]Sym {
	m := map[string][]Sym{}
	for name, fn := range e.funcs {
		if e.cs != nil && e.cs.Funcs[name] != nil {
			m[name] = e.symbolsOf(fn)
		}
	}
	return m
}

// applyRenames rewrites the contract blocks of functions whose variables were renamed since the baseline.
func (e *Engine) applyRenames(base map[string][]Sym) {
	var names []string
	for n := range base {
		names = append(names, n)
	}
	sort.Strings(names)
	for _, name := range names {
		fn := e.funcs[name]
		blk := e.cs.Funcs[name]
		if fn == nil || blk == nil {
			continue
		}
		old, cur := base[name], e.symbolsOf(fn)
		ren := map[string]string{}
		ok := true
		curNames := map[string]bool{}
		for _, s := range cur {
			curNames[s.Name] = true
		}
		oldNames := map[string]bool{}
		for _, s := range old {
			oldNames[s.Name] = true
		}
		// names that disappeared / appeared, grouped by (kind, type) and kept in source order: the k-th vanished variable
		// of a group is the k-th new variable of the same group when the group lost and gained equally many (variables
		// that were merely added or removed elsewhere do not disturb this)
		gone := map[string][]string{}
		came := map[string][]string{}
		seenOld := map[string]bool{}
		for _, s := range old {
			if s.Name == "" || s.Name == "_" || curNames[s.Name] || seenOld[s.Name] {
				continue
			}
			seenOld[s.Name] = true
			k := s.Kind + "|" + s.Type
			gone[k] = append(gone[k], s.Name)
		}
		seenCur := map[string]bool{}
		for _, s := range cur {
			if s.Name == "" || s.Name == "_" || oldNames[s.Name] || seenCur[s.Name] {
				continue
			}
			seenCur[s.Name] = true
			k := s.Kind + "|" + s.Type
			came[k] = append(came[k], s.Name)
		}
		for k, g := range gone {
			c := came[k]
			if len(c) != len(g) {
				continue // not a pure rename within this group: leave those names alone
			}
			for i := range g {
				ren[g[i]] = c[i]
			}
		}
		if !ok || len(ren) == 0 {
			continue
		}
		var pairs []string
		for o, n := range ren {
			pairs = append(pairs, o+"->"+n)
		}
		sort.Strings(pairs)
		e.renameNotes = append(e.renameNotes, fmt.Sprintf("%s: variables renamed in the source since the baseline (%s); its contract is read with the new names", name, strings.Join(pairs, ", ")))
		for _, cl := range blk.Clauses {
			cl.Expr = renameIdents(cl.Expr, ren)
			cl.Orig = append([]string(nil), cl.Words...)
			for i, w := range cl.Words {
				cl.Words[i] = renameIdents(w, ren)
			}
		}
	}
}

var identRe = regexp.MustCompile(`[A-Za-z_][A-Za-z0-9_]*`)

// renameIdents replaces free-standing identifiers (not field selectors, not function names, not inside string
// literals); `fv_x` and `x__k` follow `x`.
func renameIdents(s string, ren map[string]string) string {
	var b strings.Builder
	i := 0
	inStr := false
	for i < len(s) {
		c := s[i]
		if c == '"' {
			inStr = !inStr
			b.WriteByte(c)
			i++
			continue
		}
		if inStr {
			b.WriteByte(c)
			i++
			continue
		}
		loc := identRe.FindStringIndex(s[i:])
		if loc == nil || loc[0] != 0 {
			b.WriteByte(c)
			i++
			continue
		}
		tok := s[i : i+loc[1]]
		end := i + loc[1]
		prevDot := i > 0 && s[i-1] == '.'
		isCall := end < len(s) && s[end] == '('
		out := tok
		if !prevDot && !isCall {
			base, pre, suf := tok, "", ""
			if strings.HasPrefix(base, "fv_") {
				pre, base = "fv_", base[3:]
			}
			if k := strings.LastIndex(base, "__"); k > 0 {
				base, suf = base[:k], base[k:]
			}
			if n, ok := ren[base]; ok {
				out = pre + n + suf
			}
		}
		b.WriteString(out)
		i = end
	}
	return b.String()
}

// canonType prints a type without the parameter / result names of function types (which a rename may change).
func canonType(t types.Type, depth int) string {
	if depth > 8 {
		return "…"
	}
	switch x := t.(type) {
	case *types.Basic:
		return x.Name()
	case *types.Alias:
		return canonType(types.Unalias(x), depth+1)
	case *types.Named:
		s := x.Obj().Name()
		if x.Obj().Pkg() != nil {
			s = x.Obj().Pkg().Name() + "." + s
		}
		if ta := x.TypeArgs(); ta != nil && ta.Len() > 0 {
			var as []string
			for i := 0; i < ta.Len(); i++ {
				as = append(as, canonType(ta.At(i), depth+1))
			}
			s += "[" + strings.Join(as, ",") + "]"
		}
		return s
	case *types.TypeParam:
		return fmt.Sprintf("$%d", x.Index())
	case *types.Pointer:
		return "*" + canonType(x.Elem(), depth+1)
	case *types.Slice:
		return "[]" + canonType(x.Elem(), depth+1)
	case *types.Array:
		return fmt.Sprintf("[%d]%s", x.Len(), canonType(x.Elem(), depth+1))
	case *types.Map:
		return "map[" + canonType(x.Key(), depth+1) + "]" + canonType(x.Elem(), depth+1)
	case *types.Chan:
		d := map[types.ChanDir]string{types.SendRecv: "chan ", types.SendOnly: "chan<- ", types.RecvOnly: "<-chan "}[x.Dir()]
		return d + canonType(x.Elem(), depth+1)
	case *types.Signature:
		var ps, rs []string
		for i := 0; i < x.Params().Len(); i++ {
			ps = append(ps, canonType(x.Params().At(i).Type(), depth+1))
		}
		for i := 0; i < x.Results().Len(); i++ {
			rs = append(rs, canonType(x.Results().At(i).Type(), depth+1))
		}
		v := ""
		if x.Variadic() {
			v = "..."
		}
		return "func(" + strings.Join(ps, ",") + v + ")(" + strings.Join(rs, ",") + ")"
	case *types.Tuple:
		var ps []string
		for i := 0; i < x.Len(); i++ {
			ps = append(ps, canonType(x.At(i).Type(), depth+1))
		}
		return "(" + strings.Join(ps, ",") + ")"
	case *types.Struct:
		var fs []string
		for i := 0; i < x.NumFields(); i++ {
			fs = append(fs, x.Field(i).Name()+" "+canonType(x.Field(i).Type(), depth+1))
		}
		return "struct{" + strings.Join(fs, ";") + "}"
	case *types.Interface:
		var ms []string
		for i := 0; i < x.NumMethods(); i++ {
			ms = append(ms, x.Method(i).Name()+canonType(x.Method(i).Type(), depth+1))
		}
		return "interface{" + strings.Join(ms, ";") + "}"
	}
	return t.String()
}

// Closure numbering tolerance. go/ssa names function literals P$1, P$2, … in source order, so inserting or
// removing one literal renumbers the following ones and the contracts (which name closures) would attach to the
// wrong bodies. The baseline records, per parent function, the ordered signatures of its literals; when the
// current sequence differs, the literals are aligned by longest common subsequence of signatures, matched ones
// keep their baseline names, and new ones get names that no contract mentions (P$n1, …).

type ClosureSig struct {
	Suffix string `json:"suffix"`
	Key    string `json:"key"`
}

func closureKey(fn *ssa.Function) string {
	var fv []string
	for _, v := range fn.FreeVars {
		fv = append(fv, canonType(v.Type(), 0)) // types only: captured variables may be renamed
	}
	sort.Strings(fv) // the order of first use inside the literal is incidental
	return canonType(fn.Signature, 0) + "|" + strings.Join(fv, ",")
}

// alignClosures returns, for each literal of the parent (in order), the suffix it should get.
func alignClosures(base []ClosureSig, cur []string) ([]string, bool) {
	n, m := len(base), len(cur)
	same := n == m
	if same {
		for i := range base {
			if base[i].Key != cur[i] {
				same = false
			}
		}
	}
	out := make([]string, m)
	if same || n == 0 {
		return nil, false
	}
	// LCS table
	l := make([][]int, n+1)
	for i := range l {
		l[i] = make([]int, m+1)
	}
	for i := n - 1; i >= 0; i-- {
		for j := m - 1; j >= 0; j-- {
			if base[i].Key == cur[j] {
				l[i][j] = l[i+1][j+1] + 1
			} else if l[i+1][j] >= l[i][j+1] {
				l[i][j] = l[i+1][j]
			} else {
				l[i][j] = l[i][j+1]
			}
		}
	}
	i, j, fresh := 0, 0, 0
	for i < n && j < m {
		if base[i].Key == cur[j] {
			out[j] = base[i].Suffix
			i++
			j++
		} else if l[i+1][j] >= l[i][j+1] {
			i++
		} else {
			fresh++
			out[j] = fmt.Sprintf("$n%d", fresh)
			j++
		}
	}
	for ; j < m; j++ {
		fresh++
		out[j] = fmt.Sprintf("$n%d", fresh)
	}
	return out, true
}

func (e *Engine) allClosures() map[string][]ClosureSig {
	m := map[string][]ClosureSig{}
	for name, fn := range e.funcs {
		for _, af := range fn.AnonFuncs {
			m[name] = append(m[name], ClosureSig{Suffix: strings.TrimPrefix(e.fnName[af], name), Key: closureKey(af)})
		}
	}
	return m
}
