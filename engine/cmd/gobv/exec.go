package main

import (
	"fmt"
	"go/constant"
	"go/token"
	"go/types"
	"regexp"
	"sort"
	"strconv"
	"strings"

	"golang.org/x/tools/go/ssa"
)

const maxPaths = 400

// ---------------------------------------------------------------------------------------------
// Loop structure

type LoopInfo struct {
	Header  *ssa.BasicBlock
	Ordinal int
	Blocks  map[*ssa.BasicBlock]bool
}

var loopCache = map[*ssa.Function][]*LoopInfo{}

func loopsOf(fn *ssa.Function) []*LoopInfo {
	if l, ok := loopCache[fn]; ok {
		return l
	}
	var loops []*LoopInfo
	byHeader := map[*ssa.BasicBlock]*LoopInfo{}
	for _, b := range fn.Blocks {
		for _, s := range b.Succs {
			if s.Dominates(b) { // back edge b -> s
				li := byHeader[s]
				if li == nil {
					li = &LoopInfo{Header: s, Blocks: map[*ssa.BasicBlock]bool{s: true}}
					byHeader[s] = li
					loops = append(loops, li)
				}
				// natural loop: all blocks that reach b without passing s
				stack := []*ssa.BasicBlock{b}
				for len(stack) > 0 {
					x := stack[len(stack)-1]
					stack = stack[:len(stack)-1]
					if li.Blocks[x] {
						continue
					}
					li.Blocks[x] = true
					for _, p := range x.Preds {
						stack = append(stack, p)
					}
				}
			}
		}
	}
	sort.Slice(loops, func(i, j int) bool { return loops[i].Header.Index < loops[j].Header.Index })
	for i, l := range loops {
		l.Ordinal = i
	}
	loopCache[fn] = loops
	return loops
}

func loopAt(fn *ssa.Function, b *ssa.BasicBlock) *LoopInfo {
	for _, l := range loopsOf(fn) {
		if l.Header == b {
			return l
		}
	}
	return nil
}

// ---------------------------------------------------------------------------------------------
// Machine

type Exit struct {
	St      *State
	Panic   bool
	Results []Val
}

type Run struct {
	curBound    T // term of the bound method value being called (for result records)
	e           *Engine
	fn          *ssa.Function
	blk         *Block
	exits       []*Exit
	work        []*State
	paths       int
	effectHavoc bool // havoc in progress models the effects of a callee of this thread (not interference)
}

func (e *Engine) posOf(in ssa.Instruction) string {
	if in == nil {
		return ""
	}
	p := in.Pos()
	if !p.IsValid() {
		// search operands / block for a valid position
		if v, ok := in.(ssa.Value); ok {
			_ = v
		}
		return ""
	}
	pos := e.prog.Fset.Position(p)
	return fmt.Sprintf("%s:%d", shortFile(pos.Filename), pos.Line)
}

func shortFile(f string) string {
	if i := strings.LastIndex(f, "/"); i >= 0 {
		return f[i+1:]
	}
	return f
}

func (r *Run) loop() {
	for len(r.work) > 0 {
		st := r.work[len(r.work)-1]
		r.work = r.work[:len(r.work)-1]
		r.paths++
		if r.paths > maxPaths {
			r.e.fail("path cap exceeded (%d)", maxPaths)
			return
		}
		steps := 0
		for !st.Done {
			steps++
			if steps > 20000 {
				r.e.fail("step cap exceeded")
				break
			}
			forks := r.step(st)
			r.work = append(r.work, forks...)
		}
	}
}

// enterBlock transfers control; handles loop cuts. Returns false if the path ends here.
func (r *Run) enterBlock(st *State, fr *Frame, to *ssa.BasicBlock) bool {
	e := r.e
	from := fr.Block
	st.Path = append(st.Path, fmt.Sprintf("%s.%d", e.fnName[fr.Fn], to.Index))
	if li := loopAt(fr.Fn, to); li != nil {
		back := from != nil && li.Blocks[from] && to.Dominates(from)
		invs := r.loopInvariants(fr.Fn, li.Ordinal)
		if r.ownClausesOff(st, fr) {
			invs = nil
		}
		outer := r.outerLoopInvariants(st, fr, li.Ordinal)
		fname := e.fnName[fr.Fn]
		e.loopsHit[fmt.Sprintf("%s|%d", fname, li.Ordinal)] = true
		for i, f := range st.Frames {
			if f == fr {
				q := fmt.Sprintf("%d", li.Ordinal)
				for k := i; k > 0; k-- {
					q = e.fnName[st.Frames[k].Fn] + ">" + q
					e.loopsHit[e.fnName[st.Frames[k-1].Fn]+"|"+q] = true
				}
			}
		}
		if !back {
			// snapshot of the locals at loop entry, for atentry(N, x) in invariants
			snap := map[string]Val{}
			for name, c := range fr.Cells {
				snap[name] = st.Cells[c]
			}
			st.Ghost[fmt.Sprintf("loopsnap:%s:%d", fname, li.Ordinal)] = snap
		}
		if back {
			for _, c := range invs {
				e.obligationClause(st, fr, fmt.Sprintf("%s/loop%d/preserve:%s", fname, li.Ordinal, c.Label()), c, nil)
			}
			for _, oc := range outer {
				e.obligationClause(st, fr, fmt.Sprintf("%s/loop:%s/preserve:%s", e.fnName[oc.fr.Fn], oc.cl.Words[0], oc.cl.Label()), oc.cl, r.outerVars(st, oc.fr))
			}
			r.checkVariants(st, fr, li)
			if !r.ownClausesOff(st, fr) {
				// `loop N step label : cond` — holds at every back edge (one full iteration has run); athead(N, x) is
				// the value of local x when this iteration started
				for _, c := range r.stepClauses(fr.Fn, li.Ordinal) {
					e.obligationClause(st, fr, fmt.Sprintf("%s/loop%d/step:%s", fname, li.Ordinal, c.Label()), c, nil)
				}
			}
			if len(r.lockIfClauses(fr.Fn, li.Ordinal)) == 0 {
				r.checkLoopLocks(st, fr, li, "preserve")
			}
			r.checkLockIf(st, fr, li, "preserve")
			r.checkPendingDefers(st, fr, li, "preserve")
			st.Done = true
			return false
		}
		for _, c := range invs {
			e.obligationClause(st, fr, fmt.Sprintf("%s/loop%d/entry:%s", fname, li.Ordinal, c.Label()), c, nil)
		}
		for _, oc := range outer {
			e.obligationClause(st, fr, fmt.Sprintf("%s/loop:%s/entry:%s", e.fnName[oc.fr.Fn], oc.cl.Words[0], oc.cl.Label()), oc.cl, r.outerVars(st, oc.fr))
		}
		r.checkPendingDefers(st, fr, li, "entry")
		r.checkLockIf(st, fr, li, "entry")
		// remember lockset at loop head
		st.Facts[fmt.Sprintf("looplocks:%s:%d", fname, li.Ordinal)] = locksKey(st.Locks)
		r.havocLoop(st, fr, li)
		for _, c := range invs {
			t := e.evalClause(st, fr, c, nil)
			st.assume(t)
		}
		for _, oc := range outer {
			st.assume(e.evalClause(st, fr, oc.cl, r.outerVars(st, oc.fr)))
		}
		r.recordVariants(st, fr, li)
		{
			// snapshot of the locals at the loop head (start of this iteration), for athead(N, x) in step clauses
			snap := map[string]Val{}
			for name, c := range fr.Cells {
				snap[name] = st.Cells[c]
			}
			st.Ghost[fmt.Sprintf("loophead:%s:%d", fname, li.Ordinal)] = snap
		}
		fr.Prev = from
		fr.Block = to
		fr.PC = 0
		r.injectPendingDefers(st, fr, li)
		r.applyLockIf(st, fr, li)
		return true
	}
	fr.Prev = from
	fr.Block = to
	fr.PC = 0
	return true
}

// Loop variants: `loop N variant label : expr` — an integer expression that is non-negative whenever the loop goes
// round again and strictly smaller at every back edge than at the loop head: the loop terminates.
func (r *Run) variantClauses(fn *ssa.Function, ord int) []*Clause {
	b := r.e.cs.Funcs[r.e.fnName[fn]]
	if b == nil {
		return nil
	}
	var out []*Clause
	for _, c := range b.All("loop") {
		if len(c.Words) >= 2 && c.Words[0] == fmt.Sprintf("%d", ord) && c.Words[1] == "variant" {
			out = append(out, c)
		}
	}
	return out
}

func (r *Run) stepClauses(fn *ssa.Function, ord int) []*Clause {
	b := r.e.cs.Funcs[r.e.fnName[fn]]
	if b == nil {
		return nil
	}
	var out []*Clause
	for _, c := range b.All("loop") {
		if len(c.Words) >= 2 && c.Words[0] == fmt.Sprintf("%d", ord) && c.Words[1] == "step" {
			out = append(out, c)
		}
	}
	return out
}

func (r *Run) evalVariant(st *State, fr *Frame, cl *Clause) (T, bool) {
	e := r.e
	x, err := parseSpec(cl.Expr)
	if err != nil {
		e.fail("%v", err)
		return T{}, false
	}
	c := e.clauseCtx(st, fr, nil)
	c.inLoop = true
	return c.intArg(x), true
}

func (r *Run) recordVariants(st *State, fr *Frame, li *LoopInfo) {
	if r.ownClausesOff(st, fr) {
		return
	}
	for _, cl := range r.variantClauses(fr.Fn, li.Ordinal) {
		if v, ok := r.evalVariant(st, fr, cl); ok {
			st.Ghost[fmt.Sprintf("variant:%s:%d:%s", r.e.fnName[fr.Fn], li.Ordinal, cl.Label())] = v
		}
	}
}

func (r *Run) checkVariants(st *State, fr *Frame, li *LoopInfo) {
	e := r.e
	if r.ownClausesOff(st, fr) {
		return
	}
	for _, cl := range r.variantClauses(fr.Fn, li.Ordinal) {
		v0, ok0 := st.Ghost[fmt.Sprintf("variant:%s:%d:%s", e.fnName[fr.Fn], li.Ordinal, cl.Label())].(T)
		v1, ok1 := r.evalVariant(st, fr, cl)
		goal := False
		if ok0 && ok1 {
			goal = And(App(SBool, "<", v1, v0), App(SBool, ">=", v1, IntLit(0)))
		}
		e.emitWith(st, fmt.Sprintf("%s/loop%d/variant:%s", e.fnName[fr.Fn], li.Ordinal, cl.Label()), "", nil, goal,
			"termination: "+cl.Expr+" decreases at every back edge and stays >= 0", e.framePos(fr), cl.Props, cl)
	}
}

// atPanic: `at-panic #n label : cond` — cond holds whenever the n-th panic statement of the function (source order)
// is reached; `false` states that the statement is unreachable under the assumed contracts of the callees.
func (r *Run) atPanic(st *State, fr *Frame, x *ssa.Panic) {
	e := r.e
	blk := e.cs.Funcs[e.fnName[fr.Fn]]
	if blk == nil || r.ownClausesOff(st, fr) || len(blk.All("at-panic")) == 0 {
		return
	}
	n := 0
	type pp struct {
		pos int
		in  *ssa.Panic
	}
	var all []pp
	for _, b := range fr.Fn.Blocks {
		for _, in := range b.Instrs {
			if p, ok := in.(*ssa.Panic); ok {
				all = append(all, pp{int(p.Pos()), p})
			}
		}
	}
	sort.Slice(all, func(i, j int) bool { return all[i].pos < all[j].pos })
	for i, p := range all {
		if p.in == x {
			n = i
		}
	}
	site := fmt.Sprintf("#%d", n)
	e.sitesHit[e.fnName[fr.Fn]+"|panic"+site] = true
	for _, cl := range blk.All("at-panic") {
		if len(cl.Words) < 2 || cl.Words[0] != site {
			continue
		}
		e.obligationClause(st, fr, fmt.Sprintf("%s/at-panic%s:%s", e.fnName[fr.Fn], site, cl.Label()), cl, nil)
	}
}

func locksKey(ls []HeldLock) string {
	var s []string
	for _, l := range ls {
		s = append(s, fmt.Sprintf("%s|%s|%d", l.Class, l.Key.S, l.Mode))
	}
	return strings.Join(s, ";")
}

func (r *Run) checkLoopLocks(st *State, fr *Frame, li *LoopInfo, what string) {
	e := r.e
	fname := e.fnName[fr.Fn]
	want := st.Facts[fmt.Sprintf("looplocks:%s:%d", fname, li.Ordinal)]
	got := locksKey(st.Locks)
	if want != got {
		// lockset must be loop-invariant; emit a failing obligation
		e.emit(st, fmt.Sprintf("%s/loop%d/lockset-stable", fname, li.Ordinal), False, "lockset at back edge {"+got+"} equals lockset at loop entry {"+want+"}", "", nil, "")
	} else {
		e.emit(st, fmt.Sprintf("%s/loop%d/lockset-stable", fname, li.Ordinal), True, "lockset at back edge equals lockset at loop entry", "", nil, "")
	}
}

func (r *Run) loopInvariants(fn *ssa.Function, ord int) []*Clause {
	b := r.e.cs.Funcs[r.e.fnName[fn]]
	if b == nil {
		return nil
	}
	return b.loopClauses(ord)
}

// outerLoopInvariants: clauses `loop inlinedFn>n invariant ...` in the blocks of enclosing frames.
type outerInv struct {
	fr *Frame // the enclosing frame whose block holds the clause
	cl *Clause
}

// outerVars: parameters and locals of an enclosing frame, visible (unless shadowed) to a qualified clause
// that is evaluated inside an inlined callee.
func (r *Run) outerVars(st *State, outer *Frame) map[string]SV {
	m := map[string]SV{}
	for name, c := range outer.Cells {
		m[name] = SV{V: st.Cells[c], T: c.Typ}
	}
	for i, p := range outer.Fn.Params {
		if _, ok := m[p.Name()]; !ok && i < len(outer.Args) {
			m[p.Name()] = SV{V: outer.Args[i], T: p.Type()}
		}
	}
	return m
}

func (r *Run) outerLoopInvariants(st *State, fr *Frame, ord int) []outerInv {
	e := r.e
	var out []outerInv
	idx := -1
	for i, f := range st.Frames {
		if f == fr {
			idx = i
		}
	}
	for j := idx - 1; j >= 0; j-- {
		f := st.Frames[j]
		q := fmt.Sprintf("%d", ord)
		for k := idx; k > j; k-- {
			q = e.fnName[st.Frames[k].Fn] + ">" + q
		}
		b := e.cs.Funcs[e.fnName[f.Fn]]
		if b == nil {
			continue
		}
		for _, c := range b.All("loop") {
			if len(c.Words) >= 2 && c.Words[0] == q && c.Words[1] == "invariant" {
				out = append(out, outerInv{f, c})
			}
		}
	}
	return out
}

// pendingDeferClauses: `loop N pending-defer CELL : cond` — a defer statement inside loop N that is
// executed at most once (guarded); at the loop head a call of the function held in CELL is pending iff cond.
// ownClausesOff: a function marked `inline` that is being inlined into a caller: the loop / call-site
// clauses of its own block belong to its stand-alone verification and are not applied here (the caller
// supplies qualified clauses instead).
func (r *Run) ownClausesOff(st *State, fr *Frame) bool {
	if len(st.Frames) == 0 || st.Frames[0] == fr {
		return false
	}
	b := r.e.cs.Funcs[r.e.fnName[fr.Fn]]
	return b != nil && b.First("inline") != nil
}

func (r *Run) pendingDeferClauses(fn *ssa.Function, ord int) []*Clause {
	b := r.e.cs.Funcs[r.e.fnName[fn]]
	if b == nil {
		return nil
	}
	if r.fn != fn && b.First("inline") != nil {
		return nil
	}
	var out []*Clause
	for _, c := range b.All("loop") {
		if len(c.Words) >= 3 && c.Words[0] == fmt.Sprintf("%d", ord) && c.Words[1] == "pending-defer" {
			out = append(out, c)
		}
	}
	return out
}

// lockIfClauses: `loop N lock-if MODE LOCKEXPR : cond` — at the head of loop N the lock is held (in MODE R|W) iff cond.
func (r *Run) lockIfClauses(fn *ssa.Function, ord int) []*Clause {
	b := r.e.cs.Funcs[r.e.fnName[fn]]
	if b == nil {
		return nil
	}
	var out []*Clause
	for _, c := range b.All("loop") {
		if len(c.Words) >= 4 && c.Words[0] == fmt.Sprintf("%d", ord) && c.Words[1] == "lock-if" {
			out = append(out, c)
		}
	}
	return out
}

func (r *Run) lockIfRef(st *State, fr *Frame, cl *Clause) (LockRef, LockMode, bool) {
	e := r.e
	x, err := parseSpec(cl.Words[3])
	if err != nil {
		e.fail("%v", err)
		return LockRef{}, LockW, false
	}
	c := e.clauseCtx(st, fr, nil)
	c.inLoop = true
	key, ok := c.eval(x).V.(T)
	if !ok {
		e.fail("lock-if: not a lock expression: %s", cl.Words[3])
		return LockRef{}, LockW, false
	}
	mode := LockW
	if cl.Words[2] == "R" {
		mode = LockR
	}
	return r.lockOf(st, key), mode, true
}

// checkLockIf: the conditional lock is held exactly when its condition says so (loop entry / back edge).
func (r *Run) checkLockIf(st *State, fr *Frame, li *LoopInfo, what string) {
	e := r.e
	for _, cl := range r.lockIfClauses(fr.Fn, li.Ordinal) {
		lr, mode, ok := r.lockIfRef(st, fr, cl)
		if !ok {
			continue
		}
		held := False
		for _, l := range st.Locks {
			if l.Key.S == lr.Key.S && l.Mode == mode {
				held = True
			}
		}
		cond := e.evalClause(st, fr, cl, nil)
		e.emitWith(st, fmt.Sprintf("%s/loop%d/%s:lock-if-%s", e.fnName[fr.Fn], li.Ordinal, what, sanitize(cl.Words[3])), "", nil, Eq(cond, held),
			"lock "+cl.Words[3]+" is held exactly when "+cl.Expr, e.framePos(fr), append([]string{"C11"}, cl.Props...), cl)
	}
}

// applyLockIf: after the loop cut, split on the condition and set the lockset accordingly.
func (r *Run) applyLockIf(st *State, fr *Frame, li *LoopInfo) {
	e := r.e
	for _, cl := range r.lockIfClauses(fr.Fn, li.Ordinal) {
		lr, mode, ok := r.lockIfRef(st, fr, cl)
		if !ok {
			continue
		}
		drop := func(s *State) {
			var ls []HeldLock
			for _, l := range s.Locks {
				if !(l.Key.S == lr.Key.S && l.Mode == mode) {
					ls = append(ls, l)
				}
			}
			s.Locks = ls
		}
		cond := e.evalClause(st, fr, cl, nil)
		other := st.clone()
		other.assume(Not(cond))
		drop(other)
		r.work = append(r.work, other)
		st.assume(cond)
		drop(st)
		st.Locks = append(st.Locks, HeldLock{Class: lr.Class, Base: lr.Base, Key: lr.Key, Mode: mode})
	}
}

func (r *Run) injectPendingDefers(st *State, fr *Frame, li *LoopInfo) {
	e := r.e
	for _, cl := range r.pendingDeferClauses(fr.Fn, li.Ordinal) {
		cell, ok := fr.Cells[cl.Words[2]]
		if !ok {
			e.fail("pending-defer: no local %s", cl.Words[2])
			continue
		}
		cond := e.evalClause(st, fr, cl, nil)
		other := st.clone()
		other.assume(Not(cond))
		r.work = append(r.work, other)
		st.assume(cond)
		fr.Defers = append(fr.Defers, Deferred{Fn: st.Cells[cell], Injected: cl.Words[2], InjT: cell.Typ, Call: &ssa.CallCommon{}})
	}
}

// checkPendingDefers: at loop entry no defer of the loop is pending; at a back edge exactly the declared ones are.
func (r *Run) checkPendingDefers(st *State, fr *Frame, li *LoopInfo, what string) {
	e := r.e
	for _, cl := range r.pendingDeferClauses(fr.Fn, li.Ordinal) {
		n := 0
		for _, d := range fr.Defers {
			if d.Injected == cl.Words[2] {
				n++
			} else if d.Instr != nil && li.Blocks[d.Instr.Block()] {
				n++
			}
		}
		cond := e.evalClause(st, fr, cl, nil)
		goal := Not(cond)
		if n == 1 {
			goal = cond
		} else if n > 1 {
			goal = False
		}
		cellName := cl.Words[2]
		if len(cl.Orig) > 2 {
			cellName = cl.Orig[2]
		}
		name := fmt.Sprintf("%s/loop%d/%s:pending-%s", e.fnName[fr.Fn], li.Ordinal, what, cellName)
		e.emitWith(st, name, "", nil, goal, fmt.Sprintf("deferred calls registered in the loop: %d pending iff %s", n, cl.Expr), e.framePos(fr), cl.Props, cl)
	}
}

// havocLoop forgets everything the loop may modify.
func (r *Run) havocLoop(st *State, fr *Frame, li *LoopInfo) {
	e := r.e
	seen := map[*ssa.Function]bool{}
	var cells []*Cell
	cellSeen := map[*Cell]bool{}
	regions := map[string]bool{}
	all := false
	whole := map[*Cell]bool{}        // cells assigned as a whole (not just through an element)
	elemRegions := map[string]bool{} // slice fields written only through elements
	elemMode := false
	addCell := func(c *Cell) {
		if c != nil && !cellSeen[c] {
			cellSeen[c] = true
			cells = append(cells, c)
		}
		if c != nil && !elemMode {
			whole[c] = true
		}
	}
	var scanInstr func(f *Frame, fn *ssa.Function, in ssa.Instruction, binds []Val)
	var scanFn func(fn *ssa.Function, binds []Val)
	resolveCell := func(f *Frame, fn *ssa.Function, v ssa.Value, binds []Val) *Cell {
		switch x := v.(type) {
		case *ssa.Alloc:
			if f != nil && fn == f.Fn {
				if a, ok := f.Vals[x].(*Addr); ok && a.Kind == ACell {
					return a.Cell
				}
			}
		case *ssa.FreeVar:
			for i, fv := range fn.FreeVars {
				if fv == x && i < len(binds) {
					if a, ok := binds[i].(*Addr); ok && a.Kind == ACell {
						return a.Cell
					}
				}
			}
		}
		return nil
	}
	scanInstr = func(f *Frame, fn *ssa.Function, in ssa.Instruction, binds []Val) {
		switch x := in.(type) {
		case *ssa.Store:
			switch a := x.Addr.(type) {
			case *ssa.Alloc, *ssa.FreeVar:
				if c := resolveCell(f, fn, a, binds); c != nil {
					addCell(c)
				} else if al, ok := a.(*ssa.Alloc); ok {
					// alloc inside the loop body: fresh each iteration, nothing to havoc
					_ = al
				}
			case *ssa.FieldAddr:
				st := a.X.Type().Underlying().(*types.Pointer).Elem()
				fld := st.Underlying().(*types.Struct).Field(a.Field)
				regions[fieldRegionName(e.structKey(st), fld.Name())] = true
			case *ssa.IndexAddr:
				// store through slice element: origin is whatever the slice was loaded from
				if u, ok := a.X.(*ssa.UnOp); ok && u.Op == token.MUL {
					switch o := u.X.(type) {
					case *ssa.Alloc, *ssa.FreeVar:
						elemMode = true
						addCell(resolveCell(f, fn, o, binds))
						elemMode = false
					case *ssa.FieldAddr:
						st := o.X.Type().Underlying().(*types.Pointer).Elem()
						fld := st.Underlying().(*types.Struct).Field(o.Field)
						elemRegions[fieldRegionName(e.structKey(st), fld.Name())+".at"] = true
					default:
						all = true
					}
				} else if al, ok := a.X.(*ssa.Alloc); ok {
					// element of a local array (e.g. the backing array of a variadic call)
					addCell(resolveCell(f, fn, al, binds))
				} else {
					// slice value defined outside: treat conservatively
					all = true
				}
			default:
				all = true
			}
		case *ssa.MapUpdate:
			regions["map:"+typeKey(x.Map.Type())] = true
		case *ssa.Next:
			if f != nil && fn == f.Fn {
				if rg, ok := x.Iter.(*ssa.Range); ok {
					if c, ok := f.Cells[fmt.Sprintf("mapiter%d", rangeOrdinal(fn, rg))]; ok {
						addCell(c)
					}
				}
			}
		case *ssa.Go:
			// the spawned body runs concurrently: its effects are interference, seen at lock acquisitions
			regions["cnt:go"] = true
		case ssa.CallInstruction:
			cn := strings.ReplaceAll(e.calleeName(x.Common()), "github.com/joeycumines/go-bigbuff.", "")
			regions["counter:calls:"+cn] = true
			if cn == "(reflect.Value).Set" {
				regions["counter:calls:rvset"] = true // the ghost counter icalls("rvset") of the reflect specification
			}
			r.scanCallEffects(f, fn, x, binds, regions, &all, addCell, scanFn)
		case *ssa.Send:
			regions["chan."] = true
		case *ssa.UnOp:
			if x.Op == token.ARROW {
				regions["chan."] = true
			}
		case *ssa.Select:
			regions["chan."] = true
		}
	}
	scanFn = func(fn *ssa.Function, binds []Val) {
		if seen[fn] {
			return
		}
		seen[fn] = true
		for _, b := range fn.Blocks {
			for _, in := range b.Instrs {
				scanInstr(nil, fn, in, binds)
			}
		}
	}
	for b := range li.Blocks {
		for _, in := range b.Instrs {
			scanInstr(fr, fr.Fn, in, fr.Binds)
		}
	}
	if all {
		e.havocAllHeap(st, "loop")
		// the loop's own events still change the per-execution counters
		for n := range regions {
			for rn := range e.regions {
				if (strings.HasPrefix(rn, "cnt") || rn == "chan.sent" || rn == "chan.recvd") && (rn == n || (strings.HasSuffix(n, ".") && strings.HasPrefix(rn, n))) {
					e.havocRegion(st, rn)
				}
			}
		}
	} else {
		var names []string
		for n := range regions {
			names = append(names, n)
		}
		for n := range elemRegions {
			names = append(names, n)
		}
		sort.Strings(names)
		for _, n := range names {
			for rn := range e.regions {
				if rn == n || strings.HasPrefix(rn, n+".") || (strings.HasSuffix(n, ".") && strings.HasPrefix(rn, n)) {
					e.havocRegion(st, rn)
				}
			}
		}
	}
	// ghost counters / call records may change in the loop as well
	var cks []string
	for k := range st.Counters {
		cks = append(cks, k)
	}
	// a counter the loop may bump but that does not exist yet (nothing was called before the loop) starts at 0
	for rn := range regions {
		if strings.HasPrefix(rn, "counter:") {
			k := strings.TrimPrefix(rn, "counter:")
			if _, ok := st.Counters[k]; !ok {
				st.Counters[k] = IntLit(0)
				cks = append(cks, k)
			}
		}
	}
	sort.Strings(cks)
	for _, k := range cks {
		if strings.HasPrefix(k, "calls:") && !regions["counter:"+k] {
			continue // nothing in the loop calls it
		}
		nv := e.freshConst("cnt", SInt)
		st.assume(App(SBool, ">=", nv, st.Counters[k]))
		st.Counters[k] = nv
	}
	for k := range st.Ghost {
		if strings.HasPrefix(k, "arg:") || strings.HasPrefix(k, "res:") || k == "rand.last" || strings.HasPrefix(k, "lastsent:") || strings.HasPrefix(k, "lastrecv:") {
			delete(st.Ghost, k)
		}
		if strings.HasPrefix(k, "ires:") {
			// result record of a named callee: stale only if the loop calls that callee again
			nm := strings.TrimPrefix(k, "ires:")
			if i := strings.LastIndex(nm, ":"); i >= 0 {
				nm = nm[:i]
			}
			if regions["counter:calls:"+nm] {
				delete(st.Ghost, k)
			}
		}
		if strings.HasPrefix(k, "ctxerr.last:") && (regions["ctxerr.last"] || all) {
			delete(st.Ghost, k)
		}
	}
	st.Facts["loophavoc"] = "1"
	sort.Slice(cells, func(i, j int) bool { return cells[i].ID < cells[j].ID })
	for _, c := range cells {
		if old, ok := st.Cells[c].(*SliceV); ok && !whole[c] {
			// only elements are assigned in the loop: length and nil-ness are unchanged
			n := *old
			n.At = e.freshFun("loop_"+c.Name+"_at", []Sort{SInt}, old.Elem)
			n.Org = nil
			st.Cells[c] = &n
			continue
		}
		st.Cells[c] = e.freshVal(st, c.Typ, "loop_"+c.Name)
		if c.Name == "rangeindex" {
			// the hidden index of a range-over-slice loop starts at -1 and is only incremented
			if t, ok := st.Cells[c].(T); ok && t.So == SInt {
				st.assume(App(SBool, ">=", t, IntLit(-1)))
			}
		}
	}
}

// ---------------------------------------------------------------------------------------------
// Value lookup

func (r *Run) val(st *State, fr *Frame, v ssa.Value) Val {
	e := r.e
	switch x := v.(type) {
	case *ssa.Const:
		return e.constVal(st, x)
	case *ssa.Function:
		return e.funcValue(x, nil)
	case *ssa.Global:
		return &Addr{Kind: AGlobal, Global: x, FieldT: x.Type().(*types.Pointer).Elem()}
	case *ssa.Builtin:
		return x
	case *ssa.FreeVar:
		for i, fv := range fr.Fn.FreeVars {
			if fv == x {
				if i < len(fr.Binds) {
					return fr.Binds[i]
				}
			}
		}
		e.fail("unbound free variable %s in %s", x.Name(), fr.Fn.Name())
		return e.freshVal(st, x.Type(), "freevar_"+x.Name())
	}
	if val, ok := fr.Vals[v]; ok {
		return val
	}
	e.fail("value %s (%T) not computed in %s", v.Name(), v, fr.Fn.Name())
	nv := e.freshVal(st, v.Type(), "undef_"+v.Name())
	fr.Vals[v] = nv
	return nv
}

func (e *Engine) funcValue(fn *ssa.Function, binds []Val) *Closure {
	if o := fn.Origin(); o != nil {
		fn = o
	}
	key := fmt.Sprintf("fn_%s", sanitize(fn.String()))
	if len(binds) > 0 {
		key = freshName(key)
	}
	if c, ok := e.closures[key]; ok && len(binds) == 0 {
		e.namedFun(key, nil, SFn)
		return c
	}
	e.namedFun(key, nil, SFn)
	c := &Closure{Fn: fn, Binds: binds, Term: T{sanitize(key), SFn}}
	e.closures[c.Term.S] = c
	return c
}

func (e *Engine) constVal(st *State, c *ssa.Const) Val {
	t := c.Type()
	if c.Value == nil {
		// zero value / nil
		return e.zeroVal(st, t)
	}
	switch u := t.Underlying().(type) {
	case *types.Basic:
		switch {
		case u.Info()&types.IsBoolean != 0:
			if constant.BoolVal(c.Value) {
				return True
			}
			return False
		case u.Info()&types.IsInteger != 0:
			return e.intConst(c.Value, t)
		case u.Info()&types.IsString != 0:
			return e.strConst(constant.StringVal(c.Value))
		}
	}
	if _, ok := t.(*types.TypeParam); ok {
		return e.zeroVal(st, t)
	}
	return e.freshVal(st, t, "const")
}

func (e *Engine) intConst(v constant.Value, t types.Type) T {
	if e.bv {
		w := intBits(t)
		if i, ok := constant.Int64Val(v); ok {
			return BVLit(uint64(i), w)
		}
		if u, ok := constant.Uint64Val(v); ok {
			return BVLit(u, w)
		}
	}
	if i, ok := constant.Int64Val(v); ok {
		return IntLit(i)
	}
	return T{v.ExactString(), SInt}
}

// ---------------------------------------------------------------------------------------------
// One step

func (r *Run) step(st *State) []*State {
	e := r.e
	fr := st.top()
	if fr.InDefers {
		return r.drainDefers(st, fr)
	}
	if fr.PC >= len(fr.Block.Instrs) {
		e.fail("fell off block %d of %s", fr.Block.Index, fr.Fn.Name())
		st.Done = true
		return nil
	}
	in := fr.Block.Instrs[fr.PC]
	fr.PC++
	if e.trace {
		fmt.Printf("    [%s b%d] %s\n", e.fnName[fr.Fn], fr.Block.Index, in)
	}
	switch x := in.(type) {
	case *ssa.DebugRef:
		return nil
	case *ssa.Alloc:
		fr.Vals[x] = r.alloc(st, fr, x)
	case *ssa.Phi:
		for i, p := range fr.Block.Preds {
			if p == fr.Prev {
				fr.Vals[x] = r.val(st, fr, x.Edges[i])
				return nil
			}
		}
		e.fail("phi without matching predecessor")
	case *ssa.BinOp:
		fr.Vals[x] = r.binop(st, fr, x)
	case *ssa.UnOp:
		return r.unop(st, fr, x)
	case *ssa.Store:
		r.store(st, fr, r.val(st, fr, x.Addr), r.val(st, fr, x.Val), x.Val.Type(), x)
	case *ssa.FieldAddr:
		fr.Vals[x] = r.fieldAddr(st, fr, x)
	case *ssa.Field:
		fr.Vals[x] = r.field(st, fr, x)
	case *ssa.IndexAddr:
		fr.Vals[x] = r.indexAddr(st, fr, x)
	case *ssa.Index:
		fr.Vals[x] = e.freshVal(st, x.Type(), "index")
	case *ssa.ChangeInterface:
		fr.Vals[x] = r.val(st, fr, x.X)
	case *ssa.ChangeType:
		fr.Vals[x] = r.val(st, fr, x.X)
	case *ssa.Convert:
		fr.Vals[x] = r.convert(st, fr, x)
	case *ssa.MultiConvert:
		fr.Vals[x] = r.convertVal(st, r.val(st, fr, x.X), x.X.Type(), x.Type())
	case *ssa.MakeInterface:
		fr.Vals[x] = r.makeInterface(st, fr, x)
	case *ssa.MakeClosure:
		fr.Vals[x] = r.makeClosure(st, fr, x)
	case *ssa.MakeMap:
		fr.Vals[x] = r.makeMap(st, fr, x)
	case *ssa.MakeChan:
		fr.Vals[x] = r.makeChan(st, fr, x)
	case *ssa.MakeSlice:
		fr.Vals[x] = r.makeSlice(st, fr, x)
	case *ssa.Slice:
		fr.Vals[x] = r.sliceOp(st, fr, x)
	case *ssa.Lookup:
		fr.Vals[x] = r.lookup(st, fr, x)
	case *ssa.MapUpdate:
		r.mapUpdate(st, fr, x)
	case *ssa.Range:
		fr.Vals[x] = r.rangeOp(st, fr, x)
	case *ssa.Next:
		fr.Vals[x] = r.next(st, fr, x)
	case *ssa.TypeAssert:
		return r.typeAssert(st, fr, x)
	case *ssa.Extract:
		tv, ok := r.val(st, fr, x.Tuple).(*TupleV)
		if !ok || x.Index >= len(tv.V) {
			e.fail("extract from non-tuple")
			fr.Vals[x] = e.freshVal(st, x.Type(), "extract")
		} else {
			fr.Vals[x] = tv.V[x.Index]
		}
	case *ssa.Call:
		return r.call(st, fr, x, &x.Call, x)
	case *ssa.Defer:
		d := Deferred{Fn: r.calleeVal(st, fr, &x.Call), Instr: x, Call: &x.Call}
		for _, a := range x.Call.Args {
			d.Args = append(d.Args, r.val(st, fr, a))
		}
		if x.Call.IsInvoke() {
			d.Fn = r.val(st, fr, x.Call.Value)
		}
		fr.Defers = append(fr.Defers, d)
	case *ssa.Go:
		return r.goStmt(st, fr, x)
	case *ssa.RunDefers:
		fr.InDefers = true
		fr.AfterDef = 0
	case *ssa.Send:
		return r.send(st, fr, x)
	case *ssa.Select:
		return r.selectOp(st, fr, x)
	case *ssa.If:
		return r.branch(st, fr, x)
	case *ssa.Jump:
		r.enterBlock(st, fr, fr.Block.Succs[0])
	case *ssa.Return:
		var res []Val
		for _, v := range x.Results {
			res = append(res, r.val(st, fr, v))
		}
		return r.doReturn(st, fr, res)
	case *ssa.Panic:
		r.atPanic(st, fr, x)
		st.Panicking = true
		st.PanicVal = r.val(st, fr, x.X)
		st.Facts["panic.site"] = e.posOf(x)
		fr.InDefers = true
		fr.AfterDef = 1
	default:
		e.fail("unsupported instruction %T: %s", in, in)
		if v, ok := in.(ssa.Value); ok {
			fr.Vals[v] = e.freshVal(st, v.Type(), "unsupported")
		}
	}
	return nil
}

func (r *Run) branch(st *State, fr *Frame, x *ssa.If) []*State {
	c := r.e.asTerm(r.val(st, fr, x.Cond), SBool)
	tb, fb := fr.Block.Succs[0], fr.Block.Succs[1]
	switch c.S {
	case "true":
		r.enterBlock(st, fr, tb)
		return nil
	case "false":
		r.enterBlock(st, fr, fb)
		return nil
	}
	other := st.clone()
	st.assume(c)
	r.enterBlock(st, fr, tb)
	other.assume(Not(c))
	ofr := other.top()
	r.enterBlock(other, ofr, fb)
	return []*State{other}
}

// doReturn pops the frame; at top level records the exit.
func (r *Run) doReturn(st *State, fr *Frame, res []Val) []*State {
	if len(st.Frames) == 1 {
		r.aliasCheck(st, fr, res, "ret")
		r.exits = append(r.exits, &Exit{St: st, Results: res})
		st.Done = true
		return nil
	}
	st.Frames = st.Frames[:len(st.Frames)-1]
	parent := st.top()
	r.afterInlined(st, parent, fr, res)
	return nil
}

// aliasCheck: slices are modelled with value semantics; that is sound only if a slice held in a
// lock-guarded field never escapes (DESIGN 2.3). A returned slice value that still is the guarded
// field's own backing array fails alias:<what>.
func (r *Run) aliasCheck(st *State, fr *Frame, vals []Val, what string) {
	e := r.e
	for i, v := range vals {
		sv, ok := v.(*SliceV)
		if !ok {
			continue
		}
		name := fmt.Sprintf("%s/alias:%s%d", e.fnName[fr.Fn], what, i)
		goal := True
		text := "returned slice does not share the backing array of a lock-guarded field (value semantics of slices)"
		if sv.Src != nil && sv.Src.Kind == AField {
			parts := strings.SplitN(sv.Src.Region, ".", 2)
			if len(parts) == 2 && e.guardOf(parts[0], parts[1]).Kind == "guard" {
				goal = Or(sv.Nil, Eq(sv.Len, IntLit(0)))
				text = "slice escaping from guarded field " + sv.Src.Region + " is a copy (value semantics of slices)"
			}
		}
		e.emitWith(st, name, "", nil, goal, text, e.framePos(fr), []string{"C11"}, nil)
	}
}

// aliasInCheck: the converse of aliasCheck — a slice stored into a lock-guarded field must not be backed by an
// array the caller still holds (a parameter slice or a reslice of one): the caller could change the guarded
// contents without the lock, and the value semantics of slices would be unsound.
func (r *Run) aliasInCheck(st *State, fr *Frame, a *Addr, v Val, in ssa.Instruction) {
	e := r.e
	sv, ok := v.(*SliceV)
	if !ok {
		return
	}
	parts := strings.SplitN(a.Region, ".", 2)
	if len(parts) != 2 || e.guardOf(parts[0], parts[1]).Kind != "guard" {
		return
	}
	goal := True
	if sv.Ext {
		goal = Or(sv.Nil, Eq(sv.Len, IntLit(0)))
	}
	e.emitWith(st, fmt.Sprintf("%s/alias-in:%s", e.fnName[fr.Fn], parts[1]), "", nil, goal,
		"slice stored into guarded field "+a.Region+" is not backed by an array the caller still holds (parameter slice)", e.posOf(in), []string{"C11"}, nil)
}

func (r *Run) afterInlined(st *State, parent *Frame, child *Frame, res []Val) {
	e := r.e
	if child.OnRet != "" {
		r.onRet(st, parent, child, res)
		return
	}
	if child.Dst != nil {
		switch len(res) {
		case 0:
		case 1:
			parent.Vals[child.Dst] = res[0]
		default:
			parent.Vals[child.Dst] = &TupleV{V: res}
		}
	}
	_ = e
}

// drainDefers executes pending deferred calls of the frame (LIFO), then continues.
func (r *Run) drainDefers(st *State, fr *Frame) []*State {
	e := r.e
	if len(fr.Defers) > 0 {
		d := fr.Defers[len(fr.Defers)-1]
		fr.Defers = fr.Defers[:len(fr.Defers)-1]
		if d.Injected != "" {
			return r.invokeInjected(st, fr, d)
		}
		return r.invoke(st, fr, d.Call, d.Fn, d.Args, nil, d.Instr)
	}
	fr.InDefers = false
	switch fr.AfterDef {
	case 0:
		return nil // continue after RunDefers
	case 1:
		// panic finished unwinding this frame
		if !st.Panicking {
			// recovered: return via the Recover block (named results) or zero values
			if fr.Fn.Recover != nil {
				fr.Prev = fr.Block
				fr.Block = fr.Fn.Recover
				fr.PC = 0
				return nil
			}
			var res []Val
			sig := fr.Fn.Signature
			for i := 0; i < sig.Results().Len(); i++ {
				res = append(res, e.zeroVal(st, sig.Results().At(i).Type()))
			}
			return r.doReturn(st, fr, res)
		}
		if len(st.Frames) == 1 {
			r.exits = append(r.exits, &Exit{St: st, Panic: true})
			st.Done = true
			return nil
		}
		st.Frames = st.Frames[:len(st.Frames)-1]
		parent := st.top()
		if fr.OnRet != "" {
			r.onPanicRet(st, parent, fr)
		}
		parent.InDefers = true
		parent.AfterDef = 1
		return nil
	}
	return nil
}

// ---------------------------------------------------------------------------------------------
// Instructions

func (r *Run) alloc(st *State, fr *Frame, x *ssa.Alloc) Val {
	e := r.e
	et := x.Type().(*types.Pointer).Elem()
	if _, ok := et.Underlying().(*types.Struct); ok && isObjectStruct(et) {
		ref := r.newObject(st, et, x.Comment)
		if x.Comment != "" {
			// struct locals are addressable by name in specs through a pseudo cell holding the ref
			c := &Cell{ID: e.nextCell(), Name: x.Comment, Typ: types.NewPointer(et)}
			st.Cells[c] = ref
			fr.Cells[x.Comment] = c
		}
		return ref
	}
	if at, ok := et.Underlying().(*types.Array); ok {
		// arrays (e.g. the backing array of a variadic call) are cells holding a fixed-length slice value
		es := e.sortOf(at.Elem())
		if es == "" {
			es = SAny
		}
		z := e.asTerm(e.zeroVal(st, at.Elem()), es)
		zat := e.defineFun("zeros", []T{{"i!", SInt}}, es, z)
		c := &Cell{ID: e.nextCell(), Name: x.Comment, Typ: types.NewSlice(at.Elem())}
		st.Cells[c] = &SliceV{Len: IntLit(at.Len()), At: zat, Elem: es, Nil: False, ElemT: at.Elem()}
		return &Addr{Kind: ACell, Cell: c, FieldT: c.Typ}
	}
	c := &Cell{ID: e.nextCell(), Name: x.Comment, Typ: et}
	st.Cells[c] = e.zeroVal(st, et)
	if x.Comment != "" {
		fr.Cells[x.Comment] = c
		if fr.CellsAll == nil {
			fr.CellsAll = map[string][]*Cell{}
		}
		// one entry per declaration site: a re-executed Alloc (loop body) replaces its previous cell
		ord := allocOrdinal(fr.Fn, x)
		lst := fr.CellsAll[x.Comment]
		for len(lst) <= ord {
			lst = append(lst, nil)
		}
		lst[ord] = c
		fr.CellsAll[x.Comment] = lst
	}
	return &Addr{Kind: ACell, Cell: c, FieldT: et}
}

// isObjectStruct: struct types whose values are addressed as heap objects (program structs and the
// synchronisation types, which have identity); other external structs (reflect.Value, time.Time, ...)
// are plain opaque values held in cells.
func isObjectStruct(t types.Type) bool {
	if !isOpaqueStruct(t) {
		return true
	}
	n := t.(*types.Named)
	switch n.Obj().Pkg().Path() {
	case "sync", "sync/atomic":
		return true
	}
	return false
}

// allocOrdinal: index of this Alloc among the Allocs of its function that declare the same source name.
func allocOrdinal(fn *ssa.Function, x *ssa.Alloc) int {
	n := 0
	for _, b := range fn.Blocks {
		for _, in := range b.Instrs {
			if al, ok := in.(*ssa.Alloc); ok && al.Comment == x.Comment {
				if al == x {
					return n
				}
				n++
			}
		}
	}
	return n
}

func (e *Engine) nextCell() int { e.cellSeq++; return e.cellSeq }

// newObject allocates a fresh struct object with zeroed fields.
func (r *Run) newObject(st *State, t types.Type, hint string) T {
	e := r.e
	ref := e.freshConst("new_"+e.structKey(t)+"_"+hint, SRef)
	st.assume(Not(Eq(ref, NilOf(SRef))))
	for _, o := range st.Fresh {
		if o.So == SRef {
			st.assume(Not(Eq(ref, o)))
		}
	}
	for _, p := range st.Entry {
		if pt, ok := p.(T); ok && pt.So == SRef {
			st.assume(Not(Eq(ref, pt)))
		}
	}
	st.Fresh = append(st.Fresh, ref)
	// a new object is not yet a key of any map
	var mapRegs []string
	for rn, m := range e.regions {
		if strings.HasPrefix(rn, "map:") && strings.HasSuffix(rn, ".has") && len(m.Args) == 2 && m.Args[1] == SRef {
			mapRegs = append(mapRegs, rn)
		}
	}
	sort.Strings(mapRegs)
	for _, rn := range mapRegs {
		if sym, ok := st.Heap[rn]; ok {
			m := T{"m!q", SRef}
			st.assume(Forall([]T{m}, []T{App(SBool, sym, m, ref)}, Not(App(SBool, sym, m, ref))))
		}
	}
	switch typeKey(t) {
	case "sync.Once":
		e.region(st, "once.done", []Sort{SRef}, SBool)
		e.regionWrite1(st, "once.done", SBool, ref, False)
	case "sync.WaitGroup":
		e.region(st, "wg.n", []Sort{SRef}, SInt)
		e.regionWrite1(st, "wg.n", SInt, ref, IntLit(0))
	}
	if !isOpaqueStruct(t) {
		s := t.Underlying().(*types.Struct)
		key := e.structKey(t)
		for i := 0; i < s.NumFields(); i++ {
			f := s.Field(i)
			if _, isStruct := f.Type().Underlying().(*types.Struct); isStruct && !isOpaqueStruct(f.Type()) {
				continue // nested program struct: zeroed lazily (rare)
			}
			if isOpaqueStruct(f.Type()) {
				nr := e.nestedRef(fieldRegionName(key, f.Name()), ref)
				switch typeKey(f.Type()) {
				case "sync.Once":
					e.region(st, "once.done", []Sort{SRef}, SBool)
					e.regionWrite1(st, "once.done", SBool, nr, False)
				case "sync.WaitGroup":
					e.region(st, "wg.n", []Sort{SRef}, SInt)
					e.regionWrite1(st, "wg.n", SInt, nr, IntLit(0))
				}
				continue
			}
			e.writeLoc(st, fieldRegionName(key, f.Name()), f.Type(), ref, e.zeroVal(st, f.Type()))
		}
	}
	return ref
}

// closureUses: does fn (or a closure nested in it) use its free variable i; second result: does it write it.
func closureUses(fn *ssa.Function, i int) (bool, bool) {
	if i >= len(fn.FreeVars) {
		return false, false
	}
	fv := fn.FreeVars[i]
	used, wr := false, false
	for _, b := range fn.Blocks {
		for _, in := range b.Instrs {
			for _, op := range in.Operands(nil) {
				if op != nil && *op == ssa.Value(fv) {
					used = true
				}
			}
			if s, ok := in.(*ssa.Store); ok && s.Addr == fv {
				wr = true
			}
			if mc, ok := in.(*ssa.MakeClosure); ok {
				for j, bb := range mc.Bindings {
					if bb == fv {
						u, w := closureUses(mc.Fn.(*ssa.Function), j)
						used = used || u
						wr = wr || w
					}
				}
			}
		}
	}
	return used, wr
}

// shareClosure: the closure starts running concurrently with the current goroutine (go statement, AfterFunc
// hook): the local variables it captures become shared.
func (r *Run) shareClosure(st *State, c *Closure, how string) {
	for i, b := range c.Binds {
		a, ok := b.(*Addr)
		if !ok || a.Kind != ACell {
			continue
		}
		used, wr := closureUses(c.Fn, i)
		if !used {
			continue
		}
		mode := "r"
		if wr || st.Shared[a.Cell] == "w" {
			mode = "w"
		}
		st.Shared[a.Cell] = mode
	}
}

// sharedCellCheck: an access to a local variable that a concurrently running closure also uses needs a
// common lock (approximated: some lock is held) unless both sides only read.
func (r *Run) sharedCellCheck(st *State, fr *Frame, c *Cell, write bool, in ssa.Instruction) {
	e := r.e
	if c.Name == "" || strings.Contains(c.Name, "$") || !e.spawningFns[e.fnName[fr.Fn]] {
		return
	}
	mode, shared := st.Shared[c]
	goal := True
	if shared && (write || mode == "w") && len(st.Locks) == 0 {
		goal = False
	}
	kind := "r"
	if write {
		kind = "w"
	}
	e.emitWith(st, fmt.Sprintf("%s/own:local-%s.%s", e.fnName[fr.Fn], c.Name, kind), "", nil, goal,
		"local variable "+c.Name+" is not accessed without a lock while a concurrently running closure uses it", e.posOf(in), []string{"C11"}, nil)
}

// assumeFreshTerm: a newly created value differs from every value of its sort that existed before.
func (r *Run) assumeFreshTerm(st *State, t T) {
	for _, o := range st.Fresh {
		if o.So == t.So {
			st.assume(Not(Eq(t, o)))
		}
	}
	for _, p := range st.Entry {
		if pt, ok := p.(T); ok && pt.So == t.So {
			st.assume(Not(Eq(t, pt)))
		}
	}
	st.Fresh = append(st.Fresh, t)
}

func (r *Run) isFresh(st *State, ref T) bool {
	// a struct nested by value in a fresh object is as fresh as the object
	for i := 0; i < 4; i++ {
		ni, ok := r.e.nested[ref.S]
		if !ok {
			break
		}
		ref = ni.Base
	}
	for _, o := range st.Fresh {
		if o.S == ref.S {
			return !st.Escaped[ref.S]
		}
	}
	return false
}

func (r *Run) fieldAddr(st *State, fr *Frame, x *ssa.FieldAddr) Val {
	e := r.e
	pt := x.X.Type().Underlying().(*types.Pointer).Elem()
	s := pt.Underlying().(*types.Struct)
	f := s.Field(x.Field)
	if a, ok := r.val(st, fr, x.X).(*Addr); ok && a.Kind == ACell {
		// a struct value held in a local variable (external struct types are opaque values)
		return &Addr{Kind: ASubField, Cell: a.Cell, FName: f.Name(), FieldT: f.Type(), Owner: namedOf(pt)}
	}
	base := e.asTerm(r.val(st, fr, x.X), SRef)
	key := e.structKey(pt)
	reg := fieldRegionName(key, f.Name())
	r.safeNil(st, fr, x, base)
	if _, ok := f.Type().Underlying().(*types.Struct); ok && isObjectStruct(f.Type()) {
		nr := e.nestedRef(reg, base)
		e.nested[nr.S] = &NestedInfo{Owner: key, Field: f.Name(), Base: base, Typ: f.Type()}
		r.nestedDistinct(st, nr)
		return nr
	}
	var owner *types.Named
	if n, ok := pt.(*types.Named); ok {
		owner = n
	}
	return &Addr{Kind: AField, Region: reg, Ref: base, FieldT: f.Type(), Owner: owner, FName: f.Name()}
}

var typeArgsRe = regexp.MustCompile(`\[[^\]]*\]`)

func namedOf(t types.Type) *types.Named {
	n, _ := t.(*types.Named)
	return n
}

// subFieldGet / subFieldSet: uninterpreted projections of opaque struct values.
func (e *Engine) subFieldGet(st *State, owner types.Type, val T, fname string, ft types.Type) Val {
	so := e.sortOf(ft)
	if so == "" {
		return e.freshVal(st, ft, "sub_"+fname)
	}
	fn := e.namedFun("get_"+sanitize(string(val.So))+"_"+fname, []Sort{val.So}, so)
	return App(so, fn, val)
}

func (r *Run) subFieldStore(st *State, a *Addr, v Val) {
	e := r.e
	old, ok := st.Cells[a.Cell].(T)
	if !ok {
		e.fail("sub-field store into non-opaque local")
		return
	}
	nw := e.freshConst("upd_"+a.FName, old.So)
	if a.Owner != nil {
		if s, ok := a.Owner.Underlying().(*types.Struct); ok {
			for i := 0; i < s.NumFields(); i++ {
				f := s.Field(i)
				so := e.sortOf(f.Type())
				if so == "" {
					continue
				}
				fn := e.namedFun("get_"+sanitize(string(old.So))+"_"+f.Name(), []Sort{old.So}, so)
				if f.Name() == a.FName {
					st.assume(Eq(App(so, fn, nw), e.asTerm(v, so)))
				} else {
					st.assume(Eq(App(so, fn, nw), App(so, fn, old)))
				}
			}
		}
	}
	st.Cells[a.Cell] = nw
}

// nestedDistinct: different fields of one object have different addresses, none of them nil.
func (r *Run) nestedDistinct(st *State, nr T) {
	e := r.e
	ni := e.nested[nr.S]
	if ni == nil {
		return
	}
	if _, seen := st.Facts["nested:"+nr.S]; seen {
		return
	}
	st.Facts["nested:"+nr.S] = ""
	st.assume(Implies(Not(Eq(ni.Base, NilOf(SRef))), Not(Eq(nr, NilOf(SRef)))))
	var others []string
	for k := range e.nested {
		others = append(others, k)
	}
	sort.Strings(others)
	for _, k := range others {
		o := e.nested[k]
		if k != nr.S && o.Base.S == ni.Base.S && (o.Field != ni.Field || o.Owner != ni.Owner) {
			if _, seen := st.Facts["nested:"+k]; seen {
				st.assume(Not(Eq(nr, T{k, SRef})))
			}
		}
	}
}

type NestedInfo struct {
	Owner string
	Field string
	Base  T
	Typ   types.Type
}

func (r *Run) field(st *State, fr *Frame, x *ssa.Field) Val {
	e := r.e
	v := r.val(st, fr, x.X)
	if sv, ok := v.(*StructV); ok {
		return sv.F[x.Field]
	}
	// opaque struct
	s := x.X.Type().Underlying().(*types.Struct)
	f := s.Field(x.Field)
	t := e.asTerm(v, e.sortOf(x.X.Type()))
	so := e.sortOf(f.Type())
	if so == "" {
		return e.freshVal(st, f.Type(), "field_"+f.Name())
	}
	fn := e.namedFun("get_"+sanitize(string(t.So))+"_"+f.Name(), []Sort{t.So}, so)
	return App(so, fn, t)
}

func (r *Run) indexAddr(st *State, fr *Frame, x *ssa.IndexAddr) Val {
	e := r.e
	xv := r.val(st, fr, x.X)
	idx := r.intVal(st, fr, x.Index)
	if a, isAddr := xv.(*Addr); isAddr && a.Kind == ACell {
		if cs, isSl := st.Cells[a.Cell].(*SliceV); isSl {
			c := *cs
			c.Org = a
			c.OrgOff = IntLit(0)
			c.OrgAt = cs.At
			xv = &c
		}
	}
	sv, ok := xv.(*SliceV)
	if !ok {
		// pointer to array etc.
		return &Addr{Kind: AElem, Slice: e.freshVal(st, types.NewSlice(x.Type().(*types.Pointer).Elem()), "arr").(*SliceV), Idx: idx}
	}
	e.safety(st, fr, x, "index", And(r.le(IntLit(0), idx), r.lt(idx, sv.Len)),
		fmt.Sprintf("0 <= index < len at %s", e.posOf(x)))
	return &Addr{Kind: AElem, Slice: sv, Idx: idx, FieldT: x.Type().(*types.Pointer).Elem()}
}

// intVal gives an Int-sorted term for an index-like value (converting from BV in bv mode).
func (r *Run) intVal(st *State, fr *Frame, v ssa.Value) T {
	t := r.e.asTerm(r.val(st, fr, v), r.e.sortOf(v.Type()))
	return r.toInt(t, v.Type())
}

func (r *Run) toInt(t T, typ types.Type) T {
	if t.So.IsBV() {
		if isUnsigned(typ) {
			return App(SInt, "bv2nat", t)
		}
		w := t.So.BVWidth()
		// signed interpretation
		return Ite(App(SBool, "bvslt", t, BVLit(0, w)),
			App(SInt, "-", App(SInt, "bv2nat", t), T{fmt.Sprintf("%s", pow2(w)), SInt}),
			App(SInt, "bv2nat", t))
	}
	return t
}

func pow2(w int) string {
	switch w {
	case 8:
		return "256"
	case 16:
		return "65536"
	case 32:
		return "4294967296"
	}
	return "18446744073709551616"
}

func (r *Run) le(a, b T) T { return App(SBool, "<=", a, b) }
func (r *Run) lt(a, b T) T { return App(SBool, "<", a, b) }

func (r *Run) load(st *State, fr *Frame, av Val, t types.Type, in ssa.Instruction) Val {
	e := r.e
	switch a := av.(type) {
	case *Addr:
		switch a.Kind {
		case ACell:
			r.sharedCellCheck(st, fr, a.Cell, false, in)
			r.guardLocalCheck(st, fr, a.Cell, false, in)
			v := st.Cells[a.Cell]
			if sv, ok := v.(*SliceV); ok {
				c := *sv
				c.Org = a
				c.OrgOff = IntLit(0)
				c.OrgAt = sv.At
				return &c
			}
			return v
		case AField:
			r.accessCheck(st, fr, a, false, in)
			v := e.readLoc(st, a.Region, a.FieldT, a.Ref)
			if tt, ok := v.(T); ok {
				e.loaded[tt.S] = a
			}
			return v
		case AElem:
			r.backingAccessCheck(st, fr, a.Slice, in)
			return r.elemVal(st, a.Slice.at(a.Idx), a.Slice.ElemT, t)
		case AGlobal:
			return r.loadGlobal(st, a.Global)
		case ASubField:
			if cv, ok := st.Cells[a.Cell].(T); ok {
				return e.subFieldGet(st, a.Owner, cv, a.FName, a.FieldT)
			}
			if sv, ok := st.Cells[a.Cell].(*StructV); ok {
				for i := 0; i < sv.Typ.NumFields(); i++ {
					if sv.Typ.Field(i).Name() == a.FName {
						return sv.F[i]
					}
				}
			}
		}
	case T:
		// pointer to a struct object (or opaque pointer)
		if _, ok := t.Underlying().(*types.Struct); ok {
			if isOpaqueStruct(t) {
				return e.regionRead(st, "val_"+e.structKey(t), []Sort{SRef}, e.sortOf(t), a)
			}
			r.structAccessCheck(st, fr, t, a, false, in)
			return e.readStruct(st, t, a)
		}
		return e.readLoc(st, "ptr_"+sanitize(typeKey(t)), t, a)
	}
	e.fail("load from %T", av)
	return e.freshVal(st, t, "load")
}

func (r *Run) elemVal(st *State, t T, et types.Type, want types.Type) Val {
	return t
}

func (r *Run) loadGlobal(st *State, g *ssa.Global) Val {
	e := r.e
	if fn := e.globalFuncs[g.Name()]; fn != nil {
		e.note("package variable %s is assumed to hold its initial function value (only tests reassign it)", g.Name())
		return e.funcValue(fn, nil)
	}
	t := g.Type().(*types.Pointer).Elem()
	so := e.sortOf(t)
	if so == "" {
		return e.freshVal(st, t, "global_"+g.Name())
	}
	n := e.namedFun("G_"+g.Name(), nil, so)
	v := T{n, so}
	if so == SAny {
		// package-level error values are non-nil
		st.assume(Not(Eq(v, NilOf(SAny))))
	}
	return v
}

func (r *Run) store(st *State, fr *Frame, av Val, v Val, vt types.Type, in ssa.Instruction) {
	e := r.e
	switch a := av.(type) {
	case *Addr:
		switch a.Kind {
		case ACell:
			r.sharedCellCheck(st, fr, a.Cell, true, in)
			r.guardLocalCheck(st, fr, a.Cell, true, in)
			st.Cells[a.Cell] = v
			return
		case AField:
			r.accessCheck(st, fr, a, true, in)
			r.aliasInCheck(st, fr, a, v, in)
			r.noteEscape(st, v)
			e.writeLoc(st, a.Region, a.FieldT, a.Ref, v)
			return
		case AElem:
			r.storeElem(st, fr, a, v, in)
			return
		case AGlobal:
			return
		case ASubField:
			if sv, ok := st.Cells[a.Cell].(*StructV); ok {
				n := &StructV{Typ: sv.Typ, F: append([]Val(nil), sv.F...)}
				for i := 0; i < sv.Typ.NumFields(); i++ {
					if sv.Typ.Field(i).Name() == a.FName {
						n.F[i] = v
					}
				}
				st.Cells[a.Cell] = n
				return
			}
			r.subFieldStore(st, a, v)
			return
		}
	case T:
		if _, ok := vt.Underlying().(*types.Struct); ok && !isOpaqueStruct(vt) {
			r.structAccessCheck(st, fr, vt, a, true, in)
			e.writeStruct(st, vt, a, v)
			return
		}
		e.writeLoc(st, "ptr_"+sanitize(typeKey(vt)), vt, a, v)
		return
	}
	e.fail("store to %T", av)
}

// structAccessCheck: a whole-struct load or store through a pointer (*p, *p = v) accesses every field of the object:
// the discipline declared for each field (guard, frozen, ...) applies as for a field access.
func (r *Run) structAccessCheck(st *State, fr *Frame, t types.Type, ref T, write bool, in ssa.Instruction) {
	e := r.e
	s, ok := t.Underlying().(*types.Struct)
	if !ok || in == nil {
		return
	}
	key := e.structKey(t)
	if e.cs.Types[key] == nil {
		return
	}
	owner, _ := t.(*types.Named)
	for i := 0; i < s.NumFields(); i++ {
		f := s.Field(i)
		r.accessCheck(st, fr, &Addr{Kind: AField, Region: fieldRegionName(key, f.Name()), Ref: ref, FieldT: f.Type(), FName: f.Name(), Owner: owner}, write, in)
	}
}

func (r *Run) noteEscape(st *State, v Val) {
	if t, ok := v.(T); ok && t.So == SRef {
		for _, o := range st.Fresh {
			if o.S == t.S {
				st.Escaped[t.S] = true
			}
		}
	}
}

// storeElem writes s[idx] = v and writes the updated slice back to where it was loaded from.
func (r *Run) storeElem(st *State, fr *Frame, a *Addr, v Val, in ssa.Instruction) {
	e := r.e
	sv := a.Slice
	vt := e.asTerm(v, sv.Elem)
	if sv.Org == nil {
		e.fail("store through a slice value with unknown origin at %s (value semantics of slices)", e.posOf(in))
		return
	}
	oldAt := sv.OrgAt
	r.writeBack(st, fr, sv, func(i T, old T) T {
		return Ite(Eq(i, App(SInt, "+", sv.OrgOff, a.Idx)), vt, old)
	}, in)
	// remember what was stored at a literal index of a local array / slice (identity of closures in variadic calls)
	if sv.Org != nil && sv.Org.Kind == ACell {
		if cur, ok := st.Cells[sv.Org.Cell].(*SliceV); ok && cur.At != oldAt {
			k1, e1 := strconv.ParseInt(a.Idx.S, 10, 64)
			k0, e0 := strconv.ParseInt(sv.OrgOff.S, 10, 64)
			if e.litElems == nil {
				e.litElems = map[string]map[int64]Val{}
			}
			tab := map[int64]Val{}
			for k, v := range e.litElems[oldAt] {
				tab[k] = v
			}
			if e1 == nil && e0 == nil {
				tab[k0+k1] = v
				e.litElems[cur.At] = tab
			}
		}
	}
}

// writeBack rewrites the contents of the origin of sv with upd(i, old(i)).
func (r *Run) writeBack(st *State, fr *Frame, sv *SliceV, upd func(i T, old T) T, in ssa.Instruction) {
	e := r.e
	org := sv.Org
	i := T{"i!", SInt}
	switch org.Kind {
	case ACell:
		cur, ok := st.Cells[org.Cell].(*SliceV)
		if !ok || cur.At != sv.OrgAt {
			e.fail("slice origin changed before element store at %s", e.posOf(in))
			return
		}
		n := *cur
		n.At = e.defineFun("upd", []T{i}, cur.Elem, upd(i, App(cur.Elem, cur.At, i)))
		n.Org = nil
		st.Cells[org.Cell] = &n
	case AField:
		r.accessCheck(st, fr, org, true, in)
		cur := e.readLoc(st, org.Region, org.FieldT, org.Ref).(*SliceV)
		n := *cur
		n.At = e.defineFun("upd", []T{i}, cur.Elem, upd(i, App(cur.Elem, cur.At, i)))
		e.writeLoc(st, org.Region, org.FieldT, org.Ref, &n)
	default:
		e.fail("unsupported slice origin")
	}
}

func (r *Run) unop(st *State, fr *Frame, x *ssa.UnOp) []*State {
	e := r.e
	switch x.Op {
	case token.MUL:
		fr.Vals[x] = r.load(st, fr, r.val(st, fr, x.X), x.Type(), x)
	case token.NOT:
		fr.Vals[x] = Not(e.asTerm(r.val(st, fr, x.X), SBool))
	case token.SUB:
		t := e.asTerm(r.val(st, fr, x.X), e.sortOf(x.Type()))
		if t.So.IsBV() {
			fr.Vals[x] = App(t.So, "bvneg", t)
		} else {
			fr.Vals[x] = App(SInt, "-", t)
		}
	case token.XOR:
		t := e.asTerm(r.val(st, fr, x.X), e.sortOf(x.Type()))
		if t.So.IsBV() {
			fr.Vals[x] = App(t.So, "bvnot", t)
		} else {
			fr.Vals[x] = e.freshVal(st, x.Type(), "compl")
		}
	case token.ARROW:
		return r.recv(st, fr, x)
	default:
		e.fail("unop %s", x.Op)
		fr.Vals[x] = e.freshVal(st, x.Type(), "unop")
	}
	return nil
}

func (r *Run) binop(st *State, fr *Frame, x *ssa.BinOp) Val {
	e := r.e
	a := r.val(st, fr, x.X)
	b := r.val(st, fr, x.Y)
	return e.binopVals(st, x.Op, a, b, x.X.Type(), x.Y.Type(), x.Type())
}

func (e *Engine) binopVals(st *State, op token.Token, a, b Val, at, bt, rt types.Type) Val {
	// comparisons of compound values
	if op == token.EQL || op == token.NEQ {
		eq := e.valEq(st, a, b, at)
		if op == token.NEQ {
			return Not(eq)
		}
		return eq
	}
	so := e.sortOf(at)
	x := e.asTerm(a, so)
	var y T
	if op == token.SHL || op == token.SHR {
		y = e.asTerm(b, e.sortOf(bt))
	} else {
		y = e.asTerm(b, so)
	}
	uns := isUnsigned(at)
	if so.IsBV() {
		w := so.BVWidth()
		switch op {
		case token.ADD:
			return App(so, "bvadd", x, y)
		case token.SUB:
			return App(so, "bvsub", x, y)
		case token.MUL:
			return App(so, "bvmul", x, y)
		case token.QUO:
			if uns {
				return App(so, "bvudiv", x, y)
			}
			return App(so, "bvsdiv", x, y)
		case token.REM:
			if uns {
				return App(so, "bvurem", x, y)
			}
			return App(so, "bvsrem", x, y)
		case token.AND:
			return App(so, "bvand", x, y)
		case token.OR:
			return App(so, "bvor", x, y)
		case token.XOR:
			return App(so, "bvxor", x, y)
		case token.AND_NOT:
			return App(so, "bvand", x, App(so, "bvnot", y))
		case token.SHL, token.SHR:
			// bring shift count to operand width
			yw := y.So.BVWidth()
			ys := y
			if yw < w {
				ys = App(so, fmt.Sprintf("(_ zero_extend %d)", w-yw), y)
			} else if yw > w {
				// saturate: if y >= w the result is 0 / sign; bvshl with large count gives 0 already after truncation only if no high bits
				ys = Ite(App(SBool, "bvuge", y, BVLit(uint64(w), yw)), BVLit(uint64(w), w), App(so, fmt.Sprintf("(_ extract %d 0)", w-1), y))
			}
			if op == token.SHL {
				return App(so, "bvshl", x, ys)
			}
			if uns {
				return App(so, "bvlshr", x, ys)
			}
			return App(so, "bvashr", x, ys)
		case token.LSS:
			if uns {
				return App(SBool, "bvult", x, y)
			}
			return App(SBool, "bvslt", x, y)
		case token.LEQ:
			if uns {
				return App(SBool, "bvule", x, y)
			}
			return App(SBool, "bvsle", x, y)
		case token.GTR:
			if uns {
				return App(SBool, "bvugt", x, y)
			}
			return App(SBool, "bvsgt", x, y)
		case token.GEQ:
			if uns {
				return App(SBool, "bvuge", x, y)
			}
			return App(SBool, "bvsge", x, y)
		}
	}
	switch so {
	case SInt:
		switch op {
		case token.ADD:
			return e.wrapInt(st, App(SInt, "+", x, y), rt)
		case token.SUB:
			return e.wrapInt(st, App(SInt, "-", x, y), rt)
		case token.MUL:
			return e.wrapInt(st, App(SInt, "*", x, y), rt)
		case token.QUO:
			// Go truncates toward zero
			q := Ite(App(SBool, ">=", x, IntLit(0)),
				Ite(App(SBool, ">", y, IntLit(0)), App(SInt, "div", x, y), App(SInt, "-", App(SInt, "div", x, App(SInt, "-", y)))),
				Ite(App(SBool, ">", y, IntLit(0)), App(SInt, "-", App(SInt, "div", App(SInt, "-", x), y)), App(SInt, "div", App(SInt, "-", x), App(SInt, "-", y))))
			return q
		case token.REM:
			return e.freshConst("rem", SInt)
		case token.LSS:
			return App(SBool, "<", x, y)
		case token.LEQ:
			return App(SBool, "<=", x, y)
		case token.GTR:
			return App(SBool, ">", x, y)
		case token.GEQ:
			return App(SBool, ">=", x, y)
		case token.SHL:
			// 1 << c: uninterpreted power of two with basic facts
			p := e.namedFun("shl", []Sort{SInt, SInt}, SInt)
			return App(SInt, p, x, y)
		case token.AND, token.OR, token.XOR, token.SHR, token.AND_NOT:
			p := e.namedFun("bitop_"+sanitize(op.String()), []Sort{SInt, SInt}, SInt)
			if op == token.AND {
				// x & 2^k is exact for a non-negative x: the k-th binary digit of x, times 2^k
				for _, pr := range [][2]T{{x, y}, {y, x}} {
					if k, err := strconv.ParseInt(pr[1].S, 10, 64); err == nil && k > 0 && k&(k-1) == 0 {
						digit := App(SInt, "mod", App(SInt, "div", pr[0], IntLit(k)), IntLit(2))
						return Ite(App(SBool, ">=", pr[0], IntLit(0)), Ite(Eq(digit, IntLit(1)), IntLit(k), IntLit(0)), App(SInt, p, x, y))
					}
				}
			}
			return App(SInt, p, x, y)
		}
	case SBool:
		switch op {
		case token.AND, token.LAND:
			return And(x, y)
		case token.OR, token.LOR:
			return Or(x, y)
		}
	case SStr:
		if op == token.ADD {
			p := e.namedFun("strcat", []Sort{SStr, SStr}, SStr)
			return App(SStr, p, x, y)
		}
	}
	e.fail("binop %s on sort %s", op, so)
	return e.freshVal(st, rt, "binop")
}

// wrapInt: mathematical integers (assumption A-INT: no overflow of int/Duration arithmetic).
func (e *Engine) wrapInt(st *State, t T, rt types.Type) T {
	if isUnsigned(rt) {
		e.note("A-INT: unsigned arithmetic in int-mode function treated as mathematical")
	}
	return t
}

func (e *Engine) valEq(st *State, a, b Val, t types.Type) T {
	switch x := a.(type) {
	case *SliceV:
		// only comparison with nil is legal
		return x.Nil
	case *StructV:
		if y, ok := b.(*StructV); ok {
			var cs []T
			for i := range x.F {
				cs = append(cs, e.valEq(st, x.F[i], y.F[i], x.Typ.Field(i).Type()))
			}
			return And(cs...)
		}
	}
	if y, ok := b.(*SliceV); ok {
		return y.Nil
	}
	so := e.sortOf(t)
	if so == "" {
		so = SAny
	}
	return Eq(e.asTerm(a, so), e.asTerm(b, so))
}

func (r *Run) convert(st *State, fr *Frame, x *ssa.Convert) Val {
	return r.convertVal(st, r.val(st, fr, x.X), x.X.Type(), x.Type())
}

func (r *Run) convertVal(st *State, v Val, from, to types.Type) Val {
	e := r.e
	fs, ts := e.sortOf(from), e.sortOf(to)
	fb, fok := from.Underlying().(*types.Basic)
	tb, tok := to.Underlying().(*types.Basic)
	if fok && tok && fb.Info()&types.IsInteger != 0 && tb.Info()&types.IsInteger != 0 {
		x := e.asTerm(v, fs)
		if fs.IsBV() {
			fw, tw := fs.BVWidth(), ts.BVWidth()
			switch {
			case fw == tw:
				return x
			case fw > tw:
				return App(ts, fmt.Sprintf("(_ extract %d 0)", tw-1), x)
			default:
				if isUnsigned(from) {
					return App(ts, fmt.Sprintf("(_ zero_extend %d)", tw-fw), x)
				}
				return App(ts, fmt.Sprintf("(_ sign_extend %d)", tw-fw), x)
			}
		}
		// int mode: identical when the value fits the target type
		fbits, tbits := intBits(from), intBits(to)
		if isUnsigned(from) == isUnsigned(to) && tbits >= fbits {
			return x
		}
		if !isUnsigned(from) && !isUnsigned(to) {
			// narrowing signed: assume fits (A-INT) but record it
			e.note("A-INT: narrowing integer conversion %s -> %s treated as value-preserving", typeKey(from), typeKey(to))
			return x
		}
		if isUnsigned(from) && !isUnsigned(to) && tbits > fbits {
			return x
		}
		res := e.freshConst("conv", SInt)
		e.assumeRange(st, res, to)
		lo, hi := intRange(to)
		st.assume(Implies(And(App(SBool, "<=", T{lo, SInt}, x), App(SBool, "<=", x, T{hi, SInt})), Eq(res, x)))
		return res
	}
	if fs == ts && fs != "" {
		return v
	}
	if _, ok := v.(*SliceV); ok {
		if _, ok := to.Underlying().(*types.Slice); ok {
			return v
		}
	}
	return e.freshVal(st, to, "convert")
}

func intRange(t types.Type) (string, string) {
	bits := intBits(t)
	if isUnsigned(t) {
		switch bits {
		case 8:
			return "0", "255"
		case 16:
			return "0", "65535"
		case 32:
			return "0", "4294967295"
		}
		return "0", "18446744073709551615"
	}
	switch bits {
	case 8:
		return "(- 128)", "127"
	case 16:
		return "(- 32768)", "32767"
	case 32:
		return "(- 2147483648)", "2147483647"
	}
	return "(- 9223372036854775808)", "9223372036854775807"
}

func (r *Run) makeInterface(st *State, fr *Frame, x *ssa.MakeInterface) Val {
	e := r.e
	v := r.val(st, fr, x.X)
	return e.box(st, v, x.X.Type())
}

// box wraps a concrete value into an interface value.
func (e *Engine) box(st *State, v Val, t types.Type) T {
	so := e.sortOf(t)
	tk := sanitize(typeKey(t))
	if so == "" || so == SAny {
		if so == SAny {
			return e.asTerm(v, SAny)
		}
		b := e.freshConst("box_"+tk, SAny)
		st.assume(Not(Eq(b, NilOf(SAny))))
		st.assume(App(SBool, e.namedFun("is_"+tk, []Sort{SAny}, SBool), b))
		if sv, ok := v.(*SliceV); ok {
			e.boxedSlices[b.S] = sv
		}
		if sv, ok := v.(*StructV); ok {
			e.boxedStructs[b.S] = sv
			for i := 0; i < sv.Typ.NumFields(); i++ {
				f := sv.Typ.Field(i)
				fso := e.sortOf(f.Type())
				if ft, ok := sv.F[i].(T); ok && fso != "" && ft.So == fso {
					fn := e.namedFun("unbox_"+tk+"_"+f.Name(), []Sort{SAny}, fso)
					st.assume(Eq(App(fso, fn, b), ft))
				}
			}
		}
		return b
	}
	x := e.asTerm(v, so)
	fn := e.namedFun("box_"+tk, []Sort{so}, SAny)
	b := App(SAny, fn, x)
	st.assume(Not(Eq(b, NilOf(SAny))))
	st.assume(App(SBool, e.namedFun("is_"+tk, []Sort{SAny}, SBool), b))
	st.assume(Eq(App(so, e.namedFun("unbox_"+tk, []Sort{SAny}, so), b), x))
	e.boxedTypes[tk] = t
	return b
}

func (r *Run) typeAssert(st *State, fr *Frame, x *ssa.TypeAssert) []*State {
	e := r.e
	v := e.asTerm(r.val(st, fr, x.X), SAny)
	at := x.AssertedType
	tk := sanitize(typeKey(at))
	_, toIface := at.Underlying().(*types.Interface)
	so := e.sortOf(at)
	isT := App(SBool, e.namedFun("is_"+tk, []Sort{SAny}, SBool), v)
	var res Val
	if toIface {
		res = v
		isT = And(isT, Not(Eq(v, NilOf(SAny))))
		if types.AssignableTo(x.X.Type(), at) {
			// the static type already implements the asserted interface: only nil fails
			isT = Not(Eq(v, NilOf(SAny)))
		}
	} else if so == "" || so == SAny {
		if sv, ok := e.boxedSlices[v.S]; ok {
			res = sv
		} else if sv, ok := e.boxedStructs[v.S]; ok {
			res = sv
		} else {
			res = e.freshVal(st, at, "assert_"+tk)
			if _, isStruct := at.Underlying().(*types.Struct); isStruct {
				res = e.unboxStruct(st, v, at)
			}
		}
	} else {
		u := App(so, e.namedFun("unbox_"+tk, []Sort{SAny}, so), v)
		res = u
	}
	if x.CommaOk {
		ok := e.freshConst("ok", SBool)
		st.assume(Eq(ok, isT))
		st.assume(Implies(ok, Not(Eq(v, NilOf(SAny)))))
		if rt, isT := res.(T); isT && !toIface {
			// failed assertion yields the zero value
			z := e.asTerm(e.zeroVal(st, at), so)
			res = Ite(ok, rt, z)
			if so != "" && so != SAny {
				fn := e.namedFun("box_"+tk, []Sort{so}, SAny)
				st.assume(Implies(ok, Eq(App(SAny, fn, rt), v)))
			}
		}
		fr.Vals[x] = &TupleV{V: []Val{res, ok}}
		return nil
	}
	// panicking form: fork only if defers are pending, otherwise assume success and record safety obligation
	e.safety(st, fr, x, "typeassert", isT, "type assertion succeeds at "+e.posOf(x))
	st.assume(isT)
	if rt, ok := res.(T); ok && !toIface && so != "" && so != SAny {
		fn := e.namedFun("box_"+tk, []Sort{so}, SAny)
		st.assume(Eq(App(SAny, fn, rt), v))
	}
	fr.Vals[x] = res
	return nil
}

// unboxStruct gives the struct value held in an interface as field-wise uninterpreted projections.
func (e *Engine) unboxStruct(st *State, v T, t types.Type) Val {
	s := t.Underlying().(*types.Struct)
	tk := sanitize(typeKey(t))
	sv := &StructV{Typ: s}
	for i := 0; i < s.NumFields(); i++ {
		f := s.Field(i)
		so := e.sortOf(f.Type())
		if so == "" {
			sv.F = append(sv.F, e.freshVal(st, f.Type(), "unbox_"+f.Name()))
			continue
		}
		fn := e.namedFun("unbox_"+tk+"_"+f.Name(), []Sort{SAny}, so)
		sv.F = append(sv.F, App(so, fn, v))
	}
	return sv
}

func (r *Run) makeClosure(st *State, fr *Frame, x *ssa.MakeClosure) Val {
	e := r.e
	fn := x.Fn.(*ssa.Function)
	var binds []Val
	for _, b := range x.Bindings {
		binds = append(binds, r.val(st, fr, b))
	}
	if fn.Synthetic != "" && strings.HasSuffix(fn.Name(), "$bound") {
		// bound method value: recv is the single binding
		name := strings.TrimSuffix(fn.String(), "$bound")
		term := e.freshConst("bound_"+sanitize(fn.Name()), SFn)
		st.assume(Not(Eq(term, NilOf(SFn))))
		bm := &BoundMethod{Recv: binds[0], Name: name, Term: term}
		if obj, ok := fn.Object().(*types.Func); ok {
			if m := e.prog.FuncValue(obj); m != nil && m.Pkg == e.pkg && len(m.Blocks) > 0 {
				bm.Fn = m
			}
			bm.Name = typeArgsRe.ReplaceAllString(strings.ReplaceAll(obj.FullName(), "github.com/joeycumines/go-bigbuff.", ""), "")
		}
		e.methods[term.S] = bm
		return bm
	}
	term := e.freshConst("closure_"+sanitize(fn.Name()), SFn)
	st.assume(Not(Eq(term, NilOf(SFn))))
	r.assumeFreshTerm(st, term)
	c := &Closure{Fn: fn, Binds: binds, Term: term}
	e.closures[term.S] = c
	return c
}

func (r *Run) makeSlice(st *State, fr *Frame, x *ssa.MakeSlice) Val {
	e := r.e
	ln := r.intVal(st, fr, x.Len)
	e.safety(st, fr, x, "make", r.le(IntLit(0), ln), "make length non-negative at "+e.posOf(x))
	u := x.Type().Underlying().(*types.Slice)
	es := e.sortOf(u.Elem())
	if es == "" {
		es = SAny
	}
	z := e.asTerm(e.zeroVal(st, u.Elem()), es)
	at := e.defineFun("zeros", []T{{"i!", SInt}}, es, z)
	return &SliceV{Len: ln, At: at, Elem: es, Nil: False, ElemT: u.Elem()}
}

func (r *Run) sliceOp(st *State, fr *Frame, x *ssa.Slice) Val {
	e := r.e
	xv := r.val(st, fr, x.X)
	if a, isAddr := xv.(*Addr); isAddr && a.Kind == ACell {
		if cs, isSl := st.Cells[a.Cell].(*SliceV); isSl {
			c := *cs
			c.Org = a
			c.OrgOff = IntLit(0)
			c.OrgAt = cs.At
			xv = &c
		}
	}
	sv, ok := xv.(*SliceV)
	if !ok {
		return e.freshVal(st, x.Type(), "slice")
	}
	lo := IntLit(0)
	hi := sv.Len
	if x.Low != nil {
		lo = r.intVal(st, fr, x.Low)
	}
	if x.High != nil {
		hi = r.intVal(st, fr, x.High)
	}
	e.safety(st, fr, x, "slice", And(r.le(IntLit(0), lo), r.le(lo, hi), r.le(hi, sv.Len)),
		"0 <= low <= high <= len at "+e.posOf(x))
	n := *sv
	n.Len = App(SInt, "-", hi, lo)
	if lo.S != "0" {
		i := T{"i!", SInt}
		n.At = e.defineFun("shift", []T{i}, sv.Elem, App(sv.Elem, sv.At, App(SInt, "+", i, lo)))
		if sv.Org != nil {
			n.OrgOff = App(SInt, "+", sv.OrgOff, lo)
		}
	}
	return &n
}
