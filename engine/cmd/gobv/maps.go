package main

import (
	"fmt"
	"go/types"
	"sort"
	"strings"

	"golang.org/x/tools/go/ssa"
)

// Maps are reference values (sort Ref). Contents live in heap regions keyed by the map type:
//   map:<type>.has : (Ref, K) -> Bool      map:<type>.val[.field] : (Ref, K) -> V      map:<type>.len : Ref -> Int

type mapLayout struct {
	key   string
	ksort Sort
	mt    *types.Map
}

func (e *Engine) mapLayout(t types.Type) mapLayout {
	mt := t.Underlying().(*types.Map)
	ks := e.sortOf(mt.Key())
	if ks == "" {
		ks = SAny
	}
	return mapLayout{key: "map:" + typeKey(mt), ksort: ks, mt: mt}
}

func (e *Engine) mapHas(st *State, ml mapLayout, m, k T) T {
	return e.regionRead(st, ml.key+".has", []Sort{SRef, ml.ksort}, SBool, m, k)
}

func (e *Engine) mapLen(st *State, ml mapLayout, m T) T {
	return e.regionRead(st, ml.key+".len", []Sort{SRef}, SInt, m)
}

// mapVal reads the value stored under k (meaningful only when has).
func (e *Engine) mapVal(st *State, ml mapLayout, m, k T) Val {
	return e.mapValT(st, ml.key+".val", ml.mt.Elem(), ml.ksort, m, k)
}

func (e *Engine) mapValT(st *State, base string, vt types.Type, ks Sort, m, k T) Val {
	if s, ok := vt.Underlying().(*types.Struct); ok && !isOpaqueStruct(vt) {
		sv := &StructV{Typ: s}
		for i := 0; i < s.NumFields(); i++ {
			sv.F = append(sv.F, e.mapValT(st, base+"."+s.Field(i).Name(), s.Field(i).Type(), ks, m, k))
		}
		return sv
	}
	so := e.sortOf(vt)
	if so == "" {
		e.fail("map with compound value type %s", typeKey(vt))
		so = SAny
	}
	return e.regionRead(st, base, []Sort{SRef, ks}, so, m, k)
}

func (e *Engine) mapSetVal(st *State, base string, vt types.Type, ks Sort, m, k T, v Val) {
	if s, ok := vt.Underlying().(*types.Struct); ok && !isOpaqueStruct(vt) {
		sv, ok := v.(*StructV)
		if !ok {
			e.fail("map struct value expected")
			return
		}
		for i := 0; i < s.NumFields(); i++ {
			e.mapSetVal(st, base+"."+s.Field(i).Name(), s.Field(i).Type(), ks, m, k, sv.F[i])
		}
		return
	}
	so := e.sortOf(vt)
	if so == "" {
		so = SAny
	}
	e.region(st, base, []Sort{SRef, ks}, so)
	e.regionWrite2(st, base, ks, so, m, k, e.asTerm(v, so))
}

func (r *Run) makeMap(st *State, fr *Frame, x *ssa.MakeMap) Val {
	e := r.e
	ml := e.mapLayout(x.Type())
	m := e.freshConst("newmap", SRef)
	st.assume(Not(Eq(m, NilOf(SRef))))
	for _, o := range st.Fresh {
		if o.So == SRef {
			st.assume(Not(Eq(m, o)))
		}
	}
	st.Fresh = append(st.Fresh, m)
	// a newly made map is not yet stored anywhere: it differs from every map held as a value of another map
	var rns []string
	for rn := range e.regions {
		rns = append(rns, rn)
	}
	sort.Strings(rns)
	for _, rn := range rns {
		rm := e.regions[rn]
		if strings.HasPrefix(rn, "map:") && strings.HasSuffix(rn, ".val") && rm.Res == SRef && len(rm.Args) == 2 {
			if cur, ok := st.Heap[rn]; ok {
				a, b := T{"m!q", rm.Args[0]}, T{"k!q", rm.Args[1]}
				st.assume(Forall([]T{a, b}, nil, Not(Eq(App(SRef, cur, a, b), m))))
			}
		}
	}
	// empty: has(m, k) = false for all k, len = 0
	e.region(st, ml.key+".has", []Sort{SRef, ml.ksort}, SBool)
	k := T{"k!", ml.ksort}
	none := e.defineFun("nokeys", []T{k}, SBool, False)
	e.regionWriteRow(st, ml.key+".has", ml.ksort, SBool, m, none)
	e.region(st, ml.key+".len", []Sort{SRef}, SInt)
	e.regionWrite1(st, ml.key+".len", SInt, m, IntLit(0))
	return m
}

func (r *Run) lookup(st *State, fr *Frame, x *ssa.Lookup) Val {
	e := r.e
	if _, ok := x.X.Type().Underlying().(*types.Map); !ok {
		return e.freshVal(st, x.Type(), "strindex")
	}
	ml := e.mapLayout(x.X.Type())
	m := e.asTerm(r.val(st, fr, x.X), SRef)
	k := e.asTerm(r.val(st, fr, x.Index), ml.ksort)
	r.mapAccessCheck(st, fr, m, false, x)
	// a nil map reads as empty
	has := And(Not(Eq(m, NilOf(SRef))), e.mapHas(st, ml, m, k))
	v := e.mapVal(st, ml, m, k)
	zero := e.zeroVal(st, ml.mt.Elem())
	res := e.iteVal(has, v, zero)
	if rt, ok := res.(T); ok {
		if _, isMap := ml.mt.Elem().Underlying().(*types.Map); isMap {
			// an inner map shares the protection of the field the outer map was loaded from
			if a, ok := e.loaded[m.S]; ok {
				e.loaded[rt.S] = a
			}
		}
	}
	if x.CommaOk {
		return &TupleV{V: []Val{res, has}}
	}
	return res
}

// iteVal builds a conditional over (possibly compound) values.
func (e *Engine) iteVal(c T, a, b Val) Val {
	switch x := a.(type) {
	case T:
		if y, ok := b.(T); ok {
			if y.So != x.So {
				y = e.asTerm(y, x.So)
			}
			return Ite(c, x, y)
		}
	case *StructV:
		if y, ok := b.(*StructV); ok {
			n := &StructV{Typ: x.Typ}
			for i := range x.F {
				n.F = append(n.F, e.iteVal(c, x.F[i], y.F[i]))
			}
			return n
		}
	case *SliceV:
		if y, ok := b.(*SliceV); ok {
			i := T{"i!", SInt}
			at := e.defineFun("itesl", []T{i}, x.Elem, Ite(c, x.at(i), y.at(i)))
			return &SliceV{Len: Ite(c, x.Len, y.Len), At: at, Elem: x.Elem, Nil: Ite(c, x.Nil, y.Nil), ElemT: x.ElemT}
		}
	}
	if c.S == "true" {
		return a
	}
	if c.S == "false" {
		return b
	}
	e.fail("iteVal over %T/%T", a, b)
	return a
}

func (r *Run) mapUpdate(st *State, fr *Frame, x *ssa.MapUpdate) {
	e := r.e
	ml := e.mapLayout(x.Map.Type())
	m := e.asTerm(r.val(st, fr, x.Map), SRef)
	k := e.asTerm(r.val(st, fr, x.Key), ml.ksort)
	v := r.val(st, fr, x.Value)
	r.mapKeyAccessCheck(st, fr, m, k, x)
	e.safety(st, fr, x, "nilmap", Not(Eq(m, NilOf(SRef))), "assignment to entry in non-nil map at "+e.posOf(x))
	r.noteEscape(st, v)
	e.mapInsert(st, ml, m, k, v)
}

func (e *Engine) mapInsert(st *State, ml mapLayout, m, k T, v Val) {
	had := e.mapHas(st, ml, m, k)
	oldLen := e.mapLen(st, ml, m)
	e.regionWrite2(st, ml.key+".has", ml.ksort, SBool, m, k, True)
	e.mapSetVal(st, ml.key+".val", ml.mt.Elem(), ml.ksort, m, k, v)
	e.regionWrite1(st, ml.key+".len", SInt, m, Ite(had, oldLen, App(SInt, "+", oldLen, IntLit(1))))
}

func (e *Engine) mapDelete(st *State, ml mapLayout, m, k T) {
	had := And(Not(Eq(m, NilOf(SRef))), e.mapHas(st, ml, m, k))
	oldLen := e.mapLen(st, ml, m)
	e.regionWrite2(st, ml.key+".has", ml.ksort, SBool, m, k, False)
	e.regionWrite1(st, ml.key+".len", SInt, m, Ite(had, App(SInt, "-", oldLen, IntLit(1)), oldLen))
}

// Map iteration. `for k, v := range m` visits every key exactly once in an arbitrary order: a Range
// introduces a ghost bijection rkey : [0,len(m)) -> dom(m), ridx = rkey^-1, and a hidden counter cell
// mapiterN (N = ordinal of the range statement in its function); the i-th Next yields rkey(i).
type MapIter struct {
	M     T
	ML    mapLayout
	IsMap bool
	RKey  string
	RIdx  string
	Cell  *Cell
	N     int
}

func rangeOrdinal(fn *ssa.Function, x *ssa.Range) int {
	n := 0
	for _, b := range fn.Blocks {
		for _, in := range b.Instrs {
			if r, ok := in.(*ssa.Range); ok {
				if _, isMap := r.X.Type().Underlying().(*types.Map); isMap {
					if r == x {
						return n
					}
					n++
				}
			}
		}
	}
	return n
}

func (r *Run) rangeOp(st *State, fr *Frame, x *ssa.Range) Val {
	e := r.e
	if _, ok := x.X.Type().Underlying().(*types.Map); !ok {
		return &MapIter{}
	}
	m := e.asTerm(r.val(st, fr, x.X), SRef)
	r.mapAccessCheck(st, fr, m, false, x)
	ml := e.mapLayout(x.X.Type())
	it := &MapIter{M: m, ML: ml, IsMap: true, N: rangeOrdinal(fr.Fn, x)}
	it.RKey = e.freshFun("rkey", []Sort{SInt}, ml.ksort)
	it.RIdx = e.freshFun("ridx", []Sort{ml.ksort}, SInt)
	ln := Ite(Eq(m, NilOf(SRef)), IntLit(0), e.mapLen(st, ml, m))
	i := T{"i!q", SInt}
	k := T{"k!q", ml.ksort}
	rk := App(ml.ksort, it.RKey, i)
	st.assume(Forall([]T{i}, []T{rk}, Implies(And(App(SBool, "<=", IntLit(0), i), App(SBool, "<", i, ln)),
		And(e.mapHas(st, ml, m, rk), Eq(App(SInt, it.RIdx, rk), i)))))
	ri := App(SInt, it.RIdx, k)
	st.assume(Forall([]T{k}, []T{ri}, Implies(And(Not(Eq(m, NilOf(SRef))), e.mapHas(st, ml, m, k)),
		And(App(SBool, "<=", IntLit(0), ri), App(SBool, "<", ri, ln), Eq(App(ml.ksort, it.RKey, ri), k)))))
	st.assume(App(SBool, ">=", ln, IntLit(0)))
	name := fmt.Sprintf("mapiter%d", it.N)
	c := &Cell{ID: e.nextCell(), Name: name, Typ: types.Typ[types.Int]}
	st.Cells[c] = IntLit(0)
	fr.Cells[name] = c
	it.Cell = c
	st.Ghost[fmt.Sprintf("mapiter:%s:%d", e.fnName[fr.Fn], it.N)] = it
	return it
}

func (r *Run) next(st *State, fr *Frame, x *ssa.Next) Val {
	e := r.e
	it, _ := r.val(st, fr, x.Iter).(*MapIter)
	tup := x.Type().(*types.Tuple)
	if it == nil || !it.IsMap {
		ok := e.freshConst("next_ok", SBool)
		return &TupleV{V: []Val{ok, e.freshVal(st, tup.At(1).Type(), "next_k"), e.freshVal(st, tup.At(2).Type(), "next_v")}}
	}
	r.mapAccessCheck(st, fr, it.M, false, x)
	i := st.Cells[it.Cell].(T)
	ln := Ite(Eq(it.M, NilOf(SRef)), IntLit(0), e.mapLen(st, it.ML, it.M))
	ok := And(App(SBool, "<=", IntLit(0), i), App(SBool, "<", i, ln))
	k := App(it.ML.ksort, it.RKey, i)
	v := e.mapVal(st, it.ML, it.M, k)
	st.Cells[it.Cell] = Ite(ok, App(SInt, "+", i, IntLit(1)), i) // counts the keys visited: stays at len once exhausted
	return &TupleV{V: []Val{ok, r.keyVal(k, tup.At(1).Type()), v}}
}

func (r *Run) keyVal(k T, t types.Type) Val { return k }
