package main

import (
	"go/ast"
	"encoding/json"
	"flag"
	"fmt"
	"os"
	"path/filepath"
	"regexp"
	"runtime"
	"sort"
	"strconv"
	"strings"
	"sync"
	"time"

	"golang.org/x/tools/go/ssa"
)

var outDir = verifDir

type Obligation struct {
	Name           string
	Verdicts       []Verdict
	OK             bool
	Secs           float64
	Props          []string
	Func           string
	Clause         string
	CoverUndecided bool
}

func (o *Obligation) Backends() string {
	m := map[string]int{}
	for _, v := range o.Verdicts {
		m[v.Backend]++
	}
	var s []string
	for k, n := range m {
		s = append(s, fmt.Sprintf("%s×%d", k, n))
	}
	sort.Strings(s)
	return strings.Join(s, " ")
}

// discharge runs all queries; trivially true queries (empty text) need no solver.
func discharge(dir string, qs []*Query, timeout time.Duration) []Verdict {
	var real []*Query
	idx := map[*Query]int{}
	out := make([]Verdict, len(qs))
	covers := map[string][]int{}
	for i, q := range qs {
		if q.Cover {
			covers[q.Name] = append(covers[q.Name], i)
			continue
		}
		switch q.Text {
		case "":
			out[i] = Verdict{Q: q, Result: "unsat", Backend: "syntactic"}
		case "FALSE":
			out[i] = Verdict{Q: q, Result: "sat", Backend: "syntactic", Raw: "goal is literally false on this path: " + q.Goal}
		case "BROKEN":
			out[i] = Verdict{Q: q, Result: "not-generable", Backend: "none", Raw: q.Goal}
		default:
			idx[q] = i
			real = append(real, q)
		}
	}
	// covers: one satisfiable path per obligation is enough; short budget, stop at the first hit
	var cwg sync.WaitGroup
	csem := make(chan struct{}, 4)
	for _, ids := range covers {
		cwg.Add(1)
		go func(ids []int) {
			defer cwg.Done()
			csem <- struct{}{}
			defer func() { <-csem }()
			found := false
			tried := 0
			for _, i := range ids {
				if found || tried >= 4 {
					out[i] = Verdict{Q: qs[i], Result: "skipped", Backend: "none"}
					continue
				}
				v := runQuery(dir, qs[i], 1500*time.Millisecond, false)
				out[i] = v
				if v.Result == "sat" {
					found = true
				} else if v.Result != "unsat" {
					tried++ // only undecided (slow) attempts count against the budget; refuted paths are cheap
				}
			}
		}(ids)
	}
	vs := runAll(dir, real, timeout, runtime.NumCPU())
	for k, v := range vs {
		out[idx[real[k]]] = v
	}
	cwg.Wait()
	return out
}

func groupObligations(vs []Verdict) map[string]*Obligation {
	obs := map[string]*Obligation{}
	for _, v := range vs {
		o := obs[v.Q.Name]
		if o == nil {
			o = &Obligation{Name: v.Q.Name, OK: true, Func: v.Q.Func, Clause: v.Q.Clause}
			obs[v.Q.Name] = o
		}
		o.Verdicts = append(o.Verdicts, v)
		o.Secs += v.Secs
		for _, p := range v.Q.Props {
			found := false
			for _, q := range o.Props {
				if q == p {
					found = true
				}
			}
			if !found {
				o.Props = append(o.Props, p)
			}
		}
		if v.Q.Cover {
			continue
		} else if v.Result != "unsat" {
			o.OK = false
		}
	}
	// a cover obligation holds if any of its queries is satisfiable; it is refuted only if all are unsat
	for _, o := range obs {
		if len(o.Verdicts) == 0 || !o.Verdicts[0].Q.Cover {
			continue
		}
		anySat, allUnsat := false, true
		for _, v := range o.Verdicts {
			if v.Result == "sat" {
				anySat = true
			}
			if v.Result != "unsat" && v.Result != "skipped" {
				allUnsat = false
			}
		}
		o.OK = anySat || !allUnsat
		o.CoverUndecided = !anySat && !allUnsat
	}
	// aggregate safety obligations: F/safe-all:<kind> holds when no site of that kind in F has a countermodel.
	// Per-site names carry ordinals, which shift when sites are added or removed; the aggregate keeps a function
	// that was free of, say, unproved reflect.Value.Type calls from silently gaining one.
	agg := map[string]*Obligation{}
	for name, o := range obs {
		key := ""
		if m := safeSiteRe.FindStringSubmatch(name); m != nil {
			key = m[1] + "/safe-all:" + m[2]
		} else if m := waitSiteRe.FindStringSubmatch(name); m != nil {
			key = m[1] + "/cancellable-all:" + m[2]
		} else if m := siteFamilyRe.FindStringSubmatch(name); m != nil {
			// obligations generated per code site (release, call, acquisition) carry the site's ordinal: a new site
			// gets a name the baseline does not know. The family aggregate F/…#*… fails when any site has a countermodel.
			key = m[1] + "/" + m[2] + "*" + m[4]
		} else if m := neverLocksRe.FindStringSubmatch(name); m != nil {
			key = m[1] + "/never-locks:" + m[2]
		} else if m := disciplineRe.FindStringSubmatch(name); m != nil {
			// access-discipline obligations are named per field: a function that starts to touch a field it never
			// touched before gets a new name, which the baseline does not know — the aggregate does
			key = m[1] + "/discipline-all"
		} else {
			continue
		}
		a := agg[key]
		if a == nil {
			a = &Obligation{Name: key, OK: true, Func: o.Func}
			agg[key] = a
		}
		for _, p := range o.Props {
			if !hasProp(a.Props, p) {
				a.Props = append(a.Props, p)
			}
		}
		sat := false
		for _, v := range o.Verdicts {
			if v.Result == "sat" {
				sat = true
				a.Verdicts = append(a.Verdicts, v)
			}
		}
		if sat {
			a.OK = false
		} else if len(a.Verdicts) == 0 && len(o.Verdicts) > 0 {
			a.Verdicts = append(a.Verdicts, o.Verdicts[0])
		}
	}
	for k, a := range agg {
		if !a.OK {
			// keep only the failing verdicts for the report
			var f []Verdict
			for _, v := range a.Verdicts {
				if v.Result == "sat" {
					f = append(f, v)
				}
			}
			a.Verdicts = f
		}
		obs[k] = a
	}
	return obs
}

var safeSiteRe = regexp.MustCompile(`^(.*)/safe:([^#]+)#\d+$`)
var disciplineRe = regexp.MustCompile(`^(.*)/(lockset|own|own-write|alias|alias-in):.+$`)
var neverLocksRe = regexp.MustCompile(`^(.*)/never-locks:([^@]+)@acq#\d+$`)
var siteFamilyRe = regexp.MustCompile(`^(.*)/((inv@[^#]*|requires@[^#]*|reentrant@[^#]*|order|bcast-after-change|bcast-locked|notify-when:[^#]*)#)\d+(.*)$`)
var waitSiteRe = regexp.MustCompile(`^(.*)/cancellable:([^@]+)@wait#\d+$`)

// ---------------------------------------------------------------------------------------------
// Property -> functions

// funcsForProperty: the functions whose contract block names the property (props clause or clause tag).
// For C11 every function of the package is swept (lockset obligations are automatic).
func (e *Engine) funcsForProperty(prop string) []string {
	var out []string
	seen := map[string]bool{}
	add := func(n string) {
		if !seen[n] && e.funcs[n] != nil {
			seen[n] = true
			out = append(out, n)
		}
	}
	for _, b := range e.cs.Blocks {
		if b.Kind != "func" {
			continue
		}
		if strings.HasPrefix(b.Name, "(") && e.funcs[b.Name] == nil {
			continue // interface method contract
		}
		if b.First("trusted") != nil || b.First("skip") != nil {
			continue
		}
		if fn := e.funcs[b.Name]; fn != nil && fn.Parent() != nil && !strings.HasPrefix(b.Name, "var:") && b.First("modular") == nil {
			continue // clauses of an inlined closure: checked where it is inlined
		}
		hit := false
		for _, p := range b.Props() {
			if p == prop {
				hit = true
			}
		}
		for _, cl := range b.Clauses {
			for _, p := range cl.Props {
				if p == prop {
					hit = true
				}
			}
		}
		if hit {
			add(b.Name)
		}
	}
	// C11 (lock discipline) and C12 (lock order / lock balance: no deadlock on the way to Close) sweep every function
	if prop == "C11" || prop == "C12" {
		var all []string
		for n, fn := range e.funcs {
			if fn.Synthetic != "" || n == "init" {
				continue
			}
			if b := e.cs.Funcs[n]; b != nil && (b.First("skip") != nil) {
				continue
			}
			// closures are analysed inline with their parent unless they have a stand-alone (modular) contract
			if fn.Parent() != nil && !strings.HasPrefix(n, "var:") && (e.cs.Funcs[n] == nil || e.cs.Funcs[n].First("modular") == nil) {
				continue
			}
			// an unexported helper without a contract that is only ever called directly inside the package is verified
			// where it is inlined (with its callers' locksets); on its own it has no caller context
			if e.cs.Funcs[n] == nil && fn.Parent() == nil && !ast.IsExported(fn.Name()) && e.onlyCalledDirectly(fn) {
				continue
			}
			// dead code (an unexported function nobody references) cannot take part in any execution
			if e.cs.Funcs[n] == nil && fn.Parent() == nil && !ast.IsExported(fn.Name()) && e.unreferenced(fn) {
				continue
			}
			all = append(all, n)
		}
		sort.Strings(all)
		for _, n := range all {
			add(n)
		}
	}
	sort.Strings(out)
	return out
}

// obligationProps decides which properties an obligation belongs to.
func (e *Engine) obligationProps(o *Obligation) []string {
	if len(o.Props) > 0 {
		return o.Props
	}
	if b := e.cs.Funcs[o.Func]; b != nil {
		return b.Props()
	}
	return nil
}

func hasProp(ps []string, p string) bool {
	for _, x := range ps {
		if x == p {
			return true
		}
	}
	return false
}

// ---------------------------------------------------------------------------------------------
// Baseline

type BaselineEntry struct {
	Name   string `json:"name"`
	Clause string `json:"clause,omitempty"`
	Func   string `json:"func"`
	Auto   bool   `json:"auto,omitempty"` // automatic obligation (safe/lockset/order/...): may vanish with the code site
}

// isAutoObligation: obligations generated from code sites rather than from contract clauses.
func isAutoObligation(name string) bool {
	i := strings.LastIndex(name, "/")
	if i < 0 {
		return false
	}
	k := name[i+1:]
	for _, p := range []string{"safe:", "safe-all:", "lockset:", "own:", "order#", "alias:", "alias-in:", "lock-balance:", "bcast-locked#", "cancellable:", "discipline-all"} {
		if strings.HasPrefix(k, "never-locks:") && strings.Contains(k, "@acq#") {
			return true
		}
		if strings.HasPrefix(k, p) {
			return true
		}
	}
	if strings.Contains(k, "#*") {
		return true
	}
	return strings.HasSuffix(name, "/lockset-stable")
}

type Baseline struct {
	Note       string                     `json:"note"`
	Properties map[string][]BaselineEntry `json:"properties"`
	Symbols    map[string][]Sym           `json:"symbols,omitempty"`  // variables of the functions under contract (rename tolerance)
	Closures   map[string][]ClosureSig    `json:"closures,omitempty"` // ordered function literals per parent (renumbering tolerance)
	Covers     map[string][]string        `json:"covers,omitempty"`   // return sites that were reachable when the baseline was taken
	Failing    map[string][]string        `json:"failing_families,omitempty"` // families (site ordinals and field names abstracted) with an undischarged member on the unchanged tree
}

func baselinePath() string { return filepath.Join(verifDir, "baseline", "obligations.json") }

func loadBaseline() (*Baseline, error) {
	b := &Baseline{Properties: map[string][]BaselineEntry{}}
	data, err := os.ReadFile(baselinePath())
	if err != nil {
		return b, err
	}
	err = json.Unmarshal(data, b)
	return b, err
}

type KnownFinding struct {
	Property   string `json:"property"`
	Obligation string `json:"obligation"`
	What       string `json:"what"`
	Status     string `json:"status"` // known | fixed
	Commit     string `json:"commit,omitempty"`
}

func loadKnownFindings() []KnownFinding {
	var out struct {
		Findings []KnownFinding `json:"findings"`
	}
	data, err := os.ReadFile(filepath.Join(verifDir, "known_findings.json"))
	if err != nil {
		return nil
	}
	json.Unmarshal(data, &out)
	return out.Findings
}

// runProperty analyses the functions of a property and returns the obligations.
type PropRun struct {
	Prop      string
	Funcs     []string
	Obs       map[string]*Obligation
	Reports   map[string]*FuncReport
	Errors    []string
	Notes     []string
	Lib       map[string]bool
	Used      map[string]bool
	Queries   int
	SolverSec float64
	ByBackend map[string]int
	Bytes     int
	XChecked  int
	XAgreed   int
	XDisagree []string
	NotAdmittedFailing []string
}

// replayBudget: overlay tests a single check run may spend on replaying counterexamples.
var replayBudget = 4

// crossCheckOn: thorough tier — every query refuted by one solver is re-run on a second one.
var crossCheckOn bool

func (e *Engine) runProperty(prop string, tmp string, timeout time.Duration) *PropRun {
	pr := &PropRun{Prop: prop, Obs: map[string]*Obligation{}, Reports: map[string]*FuncReport{}, Lib: map[string]bool{}, Used: map[string]bool{}, ByBackend: map[string]int{}}
	pr.Funcs = e.funcsForProperty(prop)
	var all []*Query
	for _, name := range pr.Funcs {
		rep := e.analyse(e.funcs[name], e.cs.Funcs[name])
		pr.Reports[name] = rep
		for _, er := range rep.Errors {
			pr.Errors = append(pr.Errors, er)
		}
		for _, n := range rep.Notes {
			pr.Notes = append(pr.Notes, name+": "+n)
		}
		for _, l := range rep.Lib {
			pr.Lib[l] = true
		}
		for _, u := range rep.Used {
			pr.Used[u] = true
		}
		all = append(all, rep.Queries...)
	}
	// keep only queries that belong to this property
	var mine []*Query
	for _, q := range all {
		ps := q.Props
		if len(ps) == 0 {
			if b := e.cs.Funcs[q.Func]; b != nil {
				ps = b.Props()
			}
		}
		if hasProp(ps, prop) {
			mine = append(mine, q)
		}
	}
	pr.Queries = len(mine)
	vs := discharge(tmp, mine, timeout)
	if crossCheckOn {
		pr.XChecked, pr.XAgreed, pr.XDisagree = crossCheck(tmp, vs, 5*time.Second, runtime.NumCPU())
	}
	if os.Getenv("GOBV_SLOW") != "" {
		for _, v := range vs {
			if v.Secs > 2 {
				fmt.Printf("SLOW %.1fs %s %s %s %s\n", v.Secs, v.Result, v.Backend, v.Q.Name, v.Q.Sub)
			}
		}
	}
	for _, v := range vs {
		pr.SolverSec += v.Secs
		pr.ByBackend[v.Backend]++
		pr.Bytes += v.Bytes
	}
	pr.Obs = groupObligations(vs)
	return pr
}

func cmdBaseline(args []string) int {
	fs := flag.NewFlagSet("baseline", flag.ExitOnError)
	to := fs.Int("timeout", 10, "solver timeout (s)")
	fs.Parse(args)
	noRenames = true
	e, err := loadEngine(repoDir)
	if err != nil {
		fmt.Fprintln(os.Stderr, err)
		return 2
	}
	tmp, _ := os.MkdirTemp("", "gobv")
	defer os.RemoveAll(tmp)
	old, _ := loadBaseline()
	if old.Covers == nil {
		old.Covers = map[string][]string{}
	}
	old.Symbols = e.allSymbols()
	old.Closures = e.allClosures()
	props := fs.Args()
	if len(props) == 0 {
		props = allProps()
	}
	for _, p := range props {
		pr := e.runProperty(p, tmp, time.Duration(*to)*time.Second)
		var entries []BaselineEntry
		failingFam := map[string]bool{}
		fail := 0
		for _, o := range pr.Obs {
			if strings.Contains(o.Name, "/cover:") {
				continue
			}
			if o.OK {
				slow := false
				for _, v := range o.Verdicts {
					if v.Secs > 4 {
						slow = true
					}
				}
				if slow {
					fmt.Printf("  [%s] not admitted (slow): %s\n", p, o.Name)
					continue
				}
				entries = append(entries, BaselineEntry{Name: o.Name, Clause: o.Clause, Func: o.Func, Auto: isAutoObligation(o.Name)})
			} else {
				fail++
				fmt.Printf("  [%s] not admitted (undischarged on the unchanged tree): %s\n", p, o.Name)
				failingFam[familyKey(o.Name)] = true
			}
		}
		var ff []string
		for k := range failingFam {
			ff = append(ff, k)
		}
		sort.Strings(ff)
		if old.Failing == nil {
			old.Failing = map[string][]string{}
		}
		old.Failing[p] = ff
		sort.Slice(entries, func(i, j int) bool { return entries[i].Name < entries[j].Name })
		old.Properties[p] = entries
		var cov []string
		for n, o := range pr.Obs {
			if strings.Contains(n, "/cover:site:") && o.OK && !o.CoverUndecided {
				cov = append(cov, n)
			}
		}
		sort.Strings(cov)
		old.Covers[p] = cov
		for n, o := range pr.Obs {
			if strings.Contains(n, "/cover:site:") && !o.OK {
				fmt.Printf("  [%s] UNREACHABLE return site under the assumed contracts (dead code, or vacuous proofs beyond it — triage): %s\n", p, n)
			}
		}
		fmt.Printf("%s: %d obligations admitted, %d not, %d engine errors\n", p, len(entries), fail, len(pr.Errors))
		for _, er := range pr.Errors {
			fmt.Println("   ERROR:", er)
		}
	}
	old.Note = "obligations discharged on the unchanged tree; regenerated only by `gobv baseline`"
	os.MkdirAll(filepath.Dir(baselinePath()), 0o755)
	data, _ := json.MarshalIndent(old, "", " ")
	os.WriteFile(baselinePath(), data, 0o644)
	return 0
}

var ordRe = regexp.MustCompile(`#\d+`)
var fieldFamRe = regexp.MustCompile(`/(lockset|own|own-write|alias|alias-in):.+$`)

// familyKey abstracts what shifts or appears when code sites are added: site ordinals and, for the access-discipline
// obligations, the field name.
func familyKey(name string) string {
	s := ordRe.ReplaceAllString(name, "#*")
	if m := fieldFamRe.FindStringSubmatch(s); m != nil {
		s = fieldFamRe.ReplaceAllString(s, "/"+m[1]+":*")
	}
	return s
}

// isSiteObligation: generated from a code site (not addressed by a contract clause naming that site): a new site of the
// same kind yields a new obligation of the same family.
func isSiteObligation(name string) bool {
	i := strings.LastIndex(name, "/")
	if i < 0 {
		return false
	}
	k := name[i+1:]
	if strings.HasPrefix(k, "at-call@") || strings.HasPrefix(k, "after-call@") || strings.HasPrefix(k, "cover:") || strings.HasPrefix(k, "loop") {
		return false
	}
	if isAutoObligation(name) {
		return true
	}
	return siteFamilyRe.MatchString(name) || waitSiteRe.MatchString(name) || neverLocksRe.MatchString(name)
}

func allProps() []string {
	var out []string
	for i := 1; i <= 20; i++ {
		out = append(out, fmt.Sprintf("C%02d", i))
	}
	return out
}

// ---------------------------------------------------------------------------------------------
// check

func cmdCheck(args []string) int {
	fs := flag.NewFlagSet("check", flag.ExitOnError)
	prop := fs.String("p", "", "property id")
	tier := fs.String("tier", "", "quick|thorough")
	repo := fs.String("repo", repoDir, "repository to check (self-tests use scratch copies)")
	out := fs.String("out", verifDir, "directory receiving evidence/ and replays/ (self-tests use a scratch directory)")
	fs.Parse(args)
	outDir = *out
	if *tier == "" {
		*tier = os.Getenv("VERIF_TIER")
	}
	if *tier == "" {
		*tier = "quick"
	}
	seed, _ := strconv.Atoi(os.Getenv("VERIF_SEED"))
	t0 := time.Now()
	e, err := loadEngine(*repo)
	if err != nil {
		fmt.Fprintln(os.Stderr, "gobv: cannot load", *repo, ":", err)
		// a tree that no longer loads cannot be verified: report as a harness error, not as a verdict
		return 2
	}
	base, err := loadBaseline()
	if err != nil {
		fmt.Fprintln(os.Stderr, "gobv: no baseline:", err)
		return 2
	}
	// vacuity guard: exit clauses on a function literal that is analysed inline with its parent (no `modular`)
	// would never be evaluated
	for _, b := range e.cs.Blocks {
		if b.Kind != "func" {
			continue
		}
		if fn := e.funcs[b.Name]; fn != nil && fn.Parent() != nil && !strings.HasPrefix(b.Name, "var:") && b.First("modular") == nil {
			for _, k := range []string{"ensures", "ensures-panic", "panics", "nopanic"} {
				if b.First(k) != nil {
					fmt.Printf("HARNESS-ERROR: %s has %s clauses but is analysed inline (not `modular`): they would never be checked\n", b.Name, k)
					return 2
				}
			}
		}
	}
	want := base.Properties[*prop]
	if len(want) == 0 {
		fmt.Fprintf(os.Stderr, "gobv: property %s has no admitted obligations\n", *prop)
		return 2
	}
	tmp, _ := os.MkdirTemp("", "gobv")
	defer os.RemoveAll(tmp)
	timeout := 10 * time.Second
	if *tier == "thorough" {
		// thorough: longer budgets, every refuted query re-checked by a second solver
		timeout = 60 * time.Second
		crossCheckOn = true
	}
	pr := e.runProperty(*prop, tmp, timeout)
	known := loadKnownFindings()
	type viol struct {
		ob     string
		reason string
		o      *Obligation
	}
	var viols []viol
	discharged := 0
	vanished := 0
	var samples []map[string]interface{}
	for _, be := range want {
		o := pr.Obs[be.Name]
		if o == nil && (be.Auto || isSiteObligation(be.Name)) && e.funcs[be.Func] != nil {
			// the code site this automatic obligation was generated from is gone: nothing left to prove
			vanished++
			continue
		}
		if o == nil {
			viols = append(viols, viol{be.Name, "obligation can no longer be generated from the current source (function, loop, call site or identifier named by the contract is gone)", nil})
			continue
		}
		if !o.OK {
			viols = append(viols, viol{be.Name, "undischarged", o})
			continue
		}
		discharged++
		if len(samples) < 6 {
			v := o.Verdicts[0]
			samples = append(samples, map[string]interface{}{"obligation": o.Name, "goal": truncate(v.Q.Goal, 200), "queries": len(o.Verdicts), "backend": v.Backend, "smt_bytes": v.Bytes, "pos": v.Q.Pos})
		}
	}
	// covers (vacuity): must be sat
	covers, coverFail := 0, 0
	for n, o := range pr.Obs {
		if strings.Contains(n, "/cover:site:") {
			continue
		}
		if strings.Contains(n, "/cover:") {
			covers++
			if !o.OK {
				coverFail++
				fmt.Printf("HARNESS-ERROR: vacuous contract: %s\n", n)
			}
		}
	}
	for _, n := range base.Covers[*prop] {
		if o := pr.Obs[n]; o != nil {
			covers++
			if !o.OK {
				coverFail++
				fmt.Printf("HARNESS-ERROR: a return site that was reachable when the baseline was taken is now unreachable under the assumed contracts (vacuous proofs beyond it): %s\n", n)
			}
		}
	}
	notAdmitted := 0
	inBase := map[string]bool{}
	for _, be := range want {
		inBase[be.Name] = true
	}
	pr.NotAdmittedFailing = []string{}
	for n, o := range pr.Obs {
		if !inBase[n] && !strings.Contains(n, "/cover:") {
			notAdmitted++
			if !o.OK {
				pr.NotAdmittedFailing = append(pr.NotAdmittedFailing, n)
			}
		}
	}
	sort.Strings(pr.NotAdmittedFailing)
	// a proof obligation that did not exist when the baseline was taken (a new code site: release, call, access,
	// wait, …) and has a countermodel is a violation, unless its family already had an undischarged member on the
	// unchanged tree (then a shifted ordinal cannot be told from a new site). Undecided new obligations never alarm.
	failingFam := map[string]bool{}
	for _, f := range base.Failing[*prop] {
		failingFam[f] = true
	}
	if _, recorded := base.Failing[*prop]; recorded {
		var names []string
		for n := range pr.Obs {
			names = append(names, n)
		}
		sort.Strings(names)
		for _, n := range names {
			o := pr.Obs[n]
			if inBase[n] || o.OK || !isSiteObligation(n) || failingFam[familyKey(n)] || e.funcs[o.Func] == nil {
				continue
			}
			sat := false
			for _, v := range o.Verdicts {
				if v.Result == "sat" {
					sat = true
				}
			}
			if sat {
				viols = append(viols, viol{n, "new proof obligation (its code site did not exist when the baseline was taken) has a counterexample", o})
			}
		}
	}
	exit := 0
	nviol := 0
	os.MkdirAll(filepath.Join(outDir, "replays", *prop), 0o755)
	for _, v := range viols {
		kf := false
		for _, k := range known {
			if k.Status != "fixed" && k.Property == *prop && k.Obligation == v.ob {
				fmt.Printf("KNOWN-FINDING: property=%s %s (%s)\n", *prop, k.What, v.ob)
				kf = true
			}
		}
		if kf {
			continue
		}
		nviol++
		rp := writeReplay(e, *prop, v.ob, v.reason, v.o)
		suffix := ""
		if !replayConfirmed(rp) {
			suffix = " no-failing-input-found"
		}
		fmt.Printf("VIOLATION property=%s replay=%s obligation=%s%s\n", *prop, rp, v.ob, suffix)
		exit = 1
	}
	// known findings that are expected to fail even though not in the baseline
	for _, k := range known {
		if k.Status != "fixed" && k.Property == *prop {
			if o := pr.Obs[k.Obligation]; o != nil && !o.OK && !inBase[k.Obligation] {
				fmt.Printf("KNOWN-FINDING: property=%s %s (%s)\n", *prop, k.What, k.Obligation)
			}
		}
	}
	if coverFail > 0 && exit == 0 {
		exit = 2
	}
	for _, d := range pr.XDisagree {
		fmt.Printf("HARNESS-ERROR: solvers disagree: %s\n", d)
		if exit == 0 {
			exit = 2
		}
	}
	writeEvidence(e, pr, *prop, *tier, seed, len(want)-vanished, discharged, nviol, covers, notAdmitted, samples, time.Since(t0).Seconds())
	fmt.Printf("%s: %d/%d admitted obligations discharged, %d violations, %d functions, %d queries, solver %.1fs, wall %.1fs\n",
		*prop, discharged, len(want), nviol, len(pr.Funcs), pr.Queries, pr.SolverSec, time.Since(t0).Seconds())
	return exit
}

func writeEvidence(e *Engine, pr *PropRun, prop, tier string, seed, obligations, discharged, viols, covers, notAdmitted int, samples []map[string]interface{}, wall float64) {
	var lib, used, notes []string
	for k := range pr.Lib {
		lib = append(lib, k)
	}
	sort.Strings(lib)
	for k := range pr.Used {
		used = append(used, k)
	}
	sort.Strings(used)
	// notes are "function: text": group the functions a note applies to
	byText := map[string][]string{}
	for _, n := range pr.Notes {
		fn, text := "", n
		if i := strings.Index(n, ": "); i > 0 {
			fn, text = n[:i], n[i+2:]
		}
		found := false
		for _, f := range byText[text] {
			if f == fn {
				found = true
			}
		}
		if !found {
			byText[text] = append(byText[text], fn)
		}
	}
	for text, fns := range byText {
		sort.Strings(fns)
		if len(fns) > 6 {
			fns = append(fns[:6], fmt.Sprintf("+%d more", len(fns)-6))
		}
		notes = append(notes, text+"  [in "+strings.Join(fns, ", ")+"]")
	}
	sort.Strings(notes)
	trusted := []string{"z3 4.8.12, z3 5.1.0, cvc5 1.0 (first definite answer)", "golang.org/x/tools v0.29.0 go/ssa (naive form) agrees with the compiler", "gobv VC generator (this engine)"}
	for _, l := range lib {
		trusted = append(trusted, "A-LIB spec: "+l)
	}
	for _, u := range used {
		trusted = append(trusted, "callee contract assumed at call sites (verified separately where it has a body): "+u)
	}
	assumptions := append([]string{
		"A-INT: int/Duration arithmetic outside mode-bv functions is mathematical (overflow not checked)",
		"M1: monitor invariants + lockset obligations => every critical section starts in a state satisfying the invariant (all schedules)",
		"A-FAIR: liveness/timing clauses are not decided (see DESIGN.md §6)",
	}, notes...)
	if len(assumptions) > 120 {
		assumptions = append(assumptions[:120], fmt.Sprintf("… %d more abstraction notes", len(assumptions)-120))
	}
	for _, er := range pr.Errors {
		assumptions = append(assumptions, "ENGINE-LIMIT: "+er)
	}
	for _, rn := range e.renameNotes {
		assumptions = append(assumptions, "RENAME: "+rn)
	}
	cov := map[string]interface{}{
		"obligations":                        obligations,
		"discharged":                         discharged,
		"checker_cmd":                        fmt.Sprintf("/verif/bin/gobv check -p %s -tier %s", prop, tier),
		"trusted_base":                       trusted,
		"functions_under_contract":           pr.Funcs,
		"queries":                            pr.Queries,
		"by_backend":                         pr.ByBackend,
		"solver_time_s":                      pr.SolverSec,
		"smt_bytes":                          pr.Bytes,
		"covers_checked":                     covers,
		"cross_checked_by_second_solver":     pr.XChecked,
		"second_solver_agreed":               pr.XAgreed,
		"second_solver_undecided":            pr.XChecked - pr.XAgreed - len(pr.XDisagree),
		"solver_disagreements":               len(pr.XDisagree),
		"obligations_generated_not_admitted": notAdmitted,
		"not_admitted_undischarged":          pr.NotAdmittedFailing,
		"samples":                            samples,
		"bounded":                            []string{},
	}
	ev := map[string]interface{}{
		"property_id": prop,
		"tier":        tier,
		"seed":        seed,
		"level":       "proof",
		"coverage":    cov,
		"assumptions": assumptions,
		"wall_s":      wall,
		"violations":  viols,
	}
	os.MkdirAll(filepath.Join(outDir, "evidence"), 0o755)
	data, _ := json.MarshalIndent(ev, "", " ")
	os.WriteFile(filepath.Join(outDir, "evidence", prop+".json"), data, 0o644)
}

// writeReplay records a failed obligation: clause, solver output, model (when there is one).
func writeReplay(e *Engine, prop, ob, reason string, o *Obligation) string {
	path := filepath.Join(outDir, "replays", prop, sanitize(ob)+".json")
	rec := map[string]interface{}{"property": prop, "obligation": ob, "reason": reason, "confirmed_on_real_code": false}
	if o != nil {
		var fails []map[string]interface{}
		for _, v := range o.Verdicts {
			if v.Result == "unsat" {
				continue
			}
			fails = append(fails, map[string]interface{}{
				"path": v.Q.Sub, "result": v.Result, "backend": v.Backend, "goal": v.Q.Goal, "pos": v.Q.Pos,
				"solver_output": v.Raw, "model": truncate(v.Model, 20000),
			})
		}
		rec["failing_queries"] = fails
		rec["function"] = o.Func
		if replayBudget > 0 {
			if conf, out := tryReplay(e, o); out != "" {
				if strings.Contains(out, "harness:") {
					replayBudget-- // an overlay test was actually run (each may take up to 20 s)
				}
				rec["replay_output"] = out
				rec["confirmed_on_real_code"] = conf
			}
		} else {
			rec["replay_output"] = "not replayed: replay budget of this run (4 harness runs) is used up"
		}
	}
	data, _ := json.MarshalIndent(rec, "", " ")
	os.WriteFile(path, data, 0o644)
	return path
}

func replayConfirmed(path string) bool {
	data, err := os.ReadFile(path)
	if err != nil {
		return false
	}
	var rec map[string]interface{}
	json.Unmarshal(data, &rec)
	b, _ := rec["confirmed_on_real_code"].(bool)
	return b
}

func cmdReplay(args []string) int {
	if len(args) < 1 {
		return 2
	}
	data, err := os.ReadFile(args[0])
	if err != nil {
		fmt.Println(err)
		return 2
	}
	fmt.Println(string(data))
	return 0
}

var _ = ssa.NaiveForm
