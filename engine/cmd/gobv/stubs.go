package main

import (
	"fmt"
	"go/token"
	"go/types"
	"strings"

	"golang.org/x/tools/go/ssa"
)

// atomicOp: sequentially consistent read-modify-write on the exact bit-vector value. The value observed
// by each operation is arbitrary (any interference by other goroutines); per-function contracts are stated
// relative to the observed values apre(k)/apost(k) (k-th atomic operation of this call, from 0).
func (r *Run) atomicOp(st *State, fr *Frame, name string, recv T, args []Val, sig *types.Signature, dst ssa.Value, in ssa.Instruction) []*State {
	e := r.e
	w := 64
	if strings.Contains(name, "Int32") || strings.Contains(name, "Uint32") {
		w = 32
	}
	if !e.bv {
		e.fail("atomic operation %s in an int-mode function (declare mode bv)", name)
		r.setResult(st, fr, dst, r.freshResults(st, sig, "atomic"))
		return nil
	}
	k := 0
	fmt.Sscan(st.Facts["atomics"], &k)
	pre := e.freshConst(fmt.Sprintf("apre%d", k), BV(w))
	post := pre
	var res []Val
	op := name[strings.LastIndex(name, ".")+1:]
	switch op {
	case "Load":
		res = []Val{pre}
	case "Add":
		d := e.asTerm(args[0], BV(w))
		post = App(BV(w), "bvadd", pre, d)
		res = []Val{post}
	case "Store":
		post = e.asTerm(args[0], BV(w))
	case "CompareAndSwap":
		old := e.asTerm(args[0], BV(w))
		nw := e.asTerm(args[1], BV(w))
		ok := e.freshConst(fmt.Sprintf("cas%d", k), SBool)
		st.assume(Eq(ok, Eq(pre, old)))
		post = Ite(ok, nw, pre)
		res = []Val{ok}
	case "Swap":
		post = e.asTerm(args[0], BV(w))
		res = []Val{pre}
	default:
		e.fail("atomic op %s", name)
		res = r.freshResults(st, sig, "atomic")
	}
	st.Ghost[fmt.Sprintf("atomic.pre:%d", k)] = pre
	st.Ghost[fmt.Sprintf("atomic.post:%d", k)] = post
	st.Ghost[fmt.Sprintf("atomic.ref:%d", k)] = recv
	st.Ghost[fmt.Sprintf("atomic.op:%d", k)] = e.strConst(op)
	st.Facts["atomics"] = fmt.Sprintf("%d", k+1)
	r.setResult(st, fr, dst, res)
	return nil
}

// reflectCall: trusted specification of package reflect (DESIGN §4). Values of type reflect.Value and
// reflect.Type are opaque; the predicates the package relies on are uninterpreted functions.
func (r *Run) reflectCall(st *State, fr *Frame, name string, recv Val, args []Val, sig *types.Signature, dst ssa.Value, in ssa.Instruction) []*State {
	e := r.e
	if !strings.Contains(name, "reflect.") {
		return nil
	}
	vs := Sort("X_reflect.Value")
	e.declSort(vs)
	done := func(v ...Val) []*State {
		e.handled = true
		for i, x := range v {
			st.Ghost[fmt.Sprintf("ires:%s:%d", name, i)] = x // ilast("(reflect.Value).Call", i)
		}
		r.setResult(st, fr, dst, v)
		r.afterCall(st, fr, name, args, v, sig, in)
		return nil
	}
	st.assume(Eq(App(SInt, e.namedFun("rt_kind", []Sort{SAny}, SInt), NilOf(SAny)), IntLit(0)))
	// the zero reflect.Value is the invalid one
	zeroV := T{e.namedFun("zero_"+sanitize(string(vs)), nil, vs), vs}
	st.assume(Not(App(SBool, e.namedFun("rv_valid", []Sort{vs}, SBool), zeroV)))
	uf := func(fn string, res Sort, a ...T) T {
		var so []Sort
		for _, x := range a {
			so = append(so, x.So)
		}
		return App(res, e.namedFun(fn, so, res), a...)
	}
	typ := func(v Val) T { return e.asTerm(v, SAny) }
	kindOf := func(t T) T { return uf("rt_kind", SInt, t) }
	nilable := func(k T) T {
		var ds []T
		for _, c := range []int64{18, 19, 20, 21, 22, 23, 26} {
			ds = append(ds, Eq(k, IntLit(c)))
		}
		return Or(ds...)
	}
	vkind := func(v T) T { return Ite(uf("rv_valid", SBool, v), kindOf(uf("rv_type", SAny, v)), IntLit(0)) }
	safe := func(kind string, goal T, what string) {
		e.safety(st, fr, in, "reflect."+kind, goal, what+" at "+e.posOf(in))
		st.assume(goal)
	}
	intRes := func(t T) Val { return r.fromInt(t, types.Typ[types.Int]) }
	switch name {
	// ------------------------------------------------------------ package functions
	case "reflect.TypeOf":
		x := e.asTerm(args[0], SAny)
		t := uf("rt_of", SAny, x)
		st.assume(Eq(Eq(t, NilOf(SAny)), Eq(x, NilOf(SAny))))
		return done(t)
	case "reflect.ValueOf":
		x := e.asTerm(args[0], SAny)
		v := uf("rv_of", vs, x)
		st.assume(Eq(uf("rv_iface", SAny, v), x))
		st.assume(Eq(uf("rv_valid", SBool, v), Not(Eq(x, NilOf(SAny)))))
		st.assume(Eq(uf("rv_type", SAny, v), uf("rt_of", SAny, x)))
		st.assume(Eq(Eq(uf("rt_of", SAny, x), NilOf(SAny)), Eq(x, NilOf(SAny))))
		st.assume(Not(uf("rv_canset", SBool, v)))
		return done(v)
	case "reflect.New":
		t := typ(args[0])
		safe("New", Not(Eq(t, NilOf(SAny))), "reflect.New of a non-nil Type")
		v := e.freshConst("rv_new", vs)
		pt := uf("rt_ptrto", SAny, t)
		st.assume(uf("rv_valid", SBool, v))
		st.assume(Eq(uf("rv_type", SAny, v), pt))
		st.assume(Not(Eq(pt, NilOf(SAny))))
		st.assume(Eq(kindOf(pt), IntLit(22)))
		st.assume(Eq(uf("rt_elem", SAny, pt), t))
		st.assume(Not(uf("rv_isnil", SBool, v)))
		return done(v)
	case "reflect.MakeFunc":
		t := typ(args[0])
		safe("MakeFunc", And(Not(Eq(t, NilOf(SAny))), Eq(kindOf(t), IntLit(19))), "reflect.MakeFunc of a func Type")
		v := e.freshConst("rv_makefunc", vs)
		st.assume(uf("rv_valid", SBool, v))
		st.assume(Eq(uf("rv_type", SAny, v), t))
		st.assume(Not(uf("rv_isnil", SBool, v)))
		if c, ok := args[1].(*Closure); ok {
			e.makeFuncs[v.S] = c
			r.checkClosureRequires(st, fr, c, nil, in, "MakeFunc")
		}
		st.assume(Not(Eq(uf("rv_iface", SAny, v), NilOf(SAny))))
		return done(v)
	case "reflect.FuncOf":
		in0, ok1 := args[0].(*SliceV)
		out0, ok2 := args[1].(*SliceV)
		t := e.freshConst("rt_funcof", SAny)
		st.assume(Not(Eq(t, NilOf(SAny))))
		st.assume(Eq(kindOf(t), IntLit(19)))
		if ok1 {
			i := T{"i!q", SInt}
			safe("FuncOf.in", Forall([]T{i}, nil, Implies(And(App(SBool, "<=", IntLit(0), i), App(SBool, "<", i, in0.Len)), Not(Eq(in0.at(i), NilOf(SAny))))), "reflect.FuncOf: no nil parameter Type")
			st.assume(Eq(uf("rt_numin", SInt, t), in0.Len))
		}
		if ok2 {
			i := T{"i!q", SInt}
			safe("FuncOf.out", Forall([]T{i}, nil, Implies(And(App(SBool, "<=", IntLit(0), i), App(SBool, "<", i, out0.Len)), Not(Eq(out0.at(i), NilOf(SAny))))), "reflect.FuncOf: no nil result Type")
			st.assume(Eq(uf("rt_numout", SInt, t), out0.Len))
		}
		return done(t)
	case "reflect.Select":
		// returns the index of the case that proceeded; exactly that case's communication happened
		cases, ok := args[0].(*SliceV)
		idx := e.freshConst("selected", SInt)
		if ok {
			safe("Select.nonempty", App(SBool, ">", cases.Len, IntLit(0)), "reflect.Select with at least one case")
			st.assume(And(App(SBool, "<=", IntLit(0), idx), App(SBool, "<", idx, cases.Len)))
			st.Ghost["select.cases"] = cases
			st.Ghost["select.idx"] = idx
		}
		r.yield(st, fr, in, "reflect.Select")
		return done(intRes(idx), e.freshConst("selrecv", vs), e.freshConst("selok", SBool))
	case "reflect.Zero":
		// Zero(t): the valid zero Value of type t (A-LIB)
		t := typ(args[0])
		safe("Zero", Not(Eq(t, NilOf(SAny))), "reflect.Zero of a non-nil Type")
		z := uf("rv_zero", vs, t)
		st.assume(uf("rv_valid", SBool, z))
		st.assume(Eq(uf("rv_type", SAny, z), t))
		st.assume(uf("rt_assignable", SBool, t, t)) // identical types are assignable
		return done(z)
	case "reflect.Append":
		// Append(s, x...) panics unless s is a slice Value and every x is a valid Value assignable to its element
		// type; the result is a valid Value of the same slice type (A-LIB)
		sv0 := e.asTerm(args[0], vs)
		st0 := uf("rv_type", SAny, sv0)
		goal := And(uf("rv_valid", SBool, sv0), Eq(kindOf(st0), IntLit(23)))
		if xs, ok := args[1].(*SliceV); ok && xs.Elem == vs {
			k := e.freshConst("append_k", SInt)
			xk := xs.at(k)
			goal = And(goal, Implies(And(App(SBool, "<=", IntLit(0), k), App(SBool, "<", k, xs.Len)),
				And(uf("rv_valid", SBool, xk), uf("rt_assignable", SBool, uf("rv_type", SAny, xk), uf("rt_elem", SAny, st0)))))
		}
		safe("Append", goal, "reflect.Append to a slice Value of valid Values assignable to its element type")
		res := e.freshConst("rv_append", vs)
		st.assume(uf("rv_valid", SBool, res))
		st.assume(Eq(uf("rv_type", SAny, res), st0))
		return done(res)
	// ------------------------------------------------------------ Type (interface) methods
	case "(reflect.Type).Kind":
		t := typ(recv)
		safe("Type.nilrecv", Not(Eq(t, NilOf(SAny))), "method call on a non-nil reflect.Type")
		return done(r.fromInt(kindOf(t), sig.Results().At(0).Type()))
	case "(reflect.Type).NumIn", "(reflect.Type).NumOut", "(reflect.Type).IsVariadic":
		t := typ(recv)
		safe("Type.nilrecv", Not(Eq(t, NilOf(SAny))), "method call on a non-nil reflect.Type")
		safe("Type.func", Eq(kindOf(t), IntLit(19)), "NumIn/NumOut/IsVariadic on a func Type")
		switch name {
		case "(reflect.Type).NumIn":
			n := uf("rt_numin", SInt, t)
			st.assume(App(SBool, ">=", n, IntLit(0)))
			return done(intRes(n))
		case "(reflect.Type).NumOut":
			n := uf("rt_numout", SInt, t)
			st.assume(App(SBool, ">=", n, IntLit(0)))
			return done(intRes(n))
		}
		v := uf("rt_variadic", SBool, t)
		// a variadic func type has at least one parameter and its last parameter is a slice
		n := uf("rt_numin", SInt, t)
		last := uf("rt_in", SAny, t, App(SInt, "-", n, IntLit(1)))
		st.assume(Implies(v, And(App(SBool, ">=", n, IntLit(1)), Eq(kindOf(last), IntLit(23)), Not(Eq(last, NilOf(SAny))), Not(Eq(uf("rt_elem", SAny, last), NilOf(SAny))))))
		return done(v)
	case "(reflect.Type).In", "(reflect.Type).Out":
		t := typ(recv)
		i := r.toInt(e.asTerm(args[0], e.sortOf(types.Typ[types.Int])), types.Typ[types.Int])
		safe("Type.nilrecv", Not(Eq(t, NilOf(SAny))), "method call on a non-nil reflect.Type")
		cnt, fn := "rt_numin", "rt_in"
		if name == "(reflect.Type).Out" {
			cnt, fn = "rt_numout", "rt_out"
		}
		safe("Type.index", And(Eq(kindOf(t), IntLit(19)), App(SBool, "<=", IntLit(0), i), App(SBool, "<", i, uf(cnt, SInt, t))), "In/Out index in range on a func Type")
		res := uf(fn, SAny, t, i)
		st.assume(Not(Eq(res, NilOf(SAny))))
		return done(res)
	case "(reflect.Type).Elem":
		t := typ(recv)
		safe("Type.nilrecv", Not(Eq(t, NilOf(SAny))), "method call on a non-nil reflect.Type")
		k := kindOf(t)
		safe("Type.Elem", Or(Eq(k, IntLit(17)), Eq(k, IntLit(18)), Eq(k, IntLit(21)), Eq(k, IntLit(22)), Eq(k, IntLit(23))), "Type.Elem on array, chan, map, pointer or slice")
		res := uf("rt_elem", SAny, t)
		st.assume(Not(Eq(res, NilOf(SAny))))
		return done(res)
	case "(reflect.Type).AssignableTo":
		t := typ(recv)
		u := typ(args[0])
		safe("Type.nilrecv", Not(Eq(t, NilOf(SAny))), "method call on a non-nil reflect.Type")
		safe("Type.AssignableTo", Not(Eq(u, NilOf(SAny))), "AssignableTo a non-nil Type")
		return done(uf("rt_assignable", SBool, t, u))
	case "(reflect.Type).ChanDir":
		t := typ(recv)
		safe("Type.nilrecv", Not(Eq(t, NilOf(SAny))), "method call on a non-nil reflect.Type")
		safe("Type.ChanDir", Eq(kindOf(t), IntLit(18)), "ChanDir on a chan Type")
		cd := uf("rt_chandir", SInt, t)
		st.assume(And(App(SBool, "<=", IntLit(1), cd), App(SBool, "<=", cd, IntLit(3)))) // RecvDir=1, SendDir=2, BothDir=3
		return done(r.fromInt(cd, sig.Results().At(0).Type()))
	case "(reflect.Type).String":
		return done(e.freshConst("str", SStr))
	// ------------------------------------------------------------ Value methods
	case "(reflect.Value).IsValid":
		return done(uf("rv_valid", SBool, e.asTerm(recv, vs)))
	case "(reflect.Value).Type":
		v := e.asTerm(recv, vs)
		safe("Value.Type", uf("rv_valid", SBool, v), "Value.Type on a valid Value")
		t := uf("rv_type", SAny, v)
		st.assume(Not(Eq(t, NilOf(SAny))))
		return done(t)
	case "(reflect.Value).Interface":
		v := e.asTerm(recv, vs)
		safe("Value.Interface", uf("rv_valid", SBool, v), "Value.Interface on a valid Value")
		return done(uf("rv_iface", SAny, v))
	case "(reflect.Value).Kind":
		v := e.asTerm(recv, vs)
		return done(r.fromInt(vkind(v), sig.Results().At(0).Type()))
	case "(reflect.Value).IsNil":
		v := e.asTerm(recv, vs)
		safe("Value.IsNil", nilable(vkind(v)), "Value.IsNil on a chan, func, interface, map, pointer or slice Value")
		return done(uf("rv_isnil", SBool, v))
	case "(reflect.Value).Elem":
		v := e.asTerm(recv, vs)
		k := vkind(v)
		safe("Value.Elem", Or(Eq(k, IntLit(20)), Eq(k, IntLit(22))), "Value.Elem on an interface or pointer Value")
		el := uf("rv_elem", vs, v)
		st.assume(Eq(uf("rv_valid", SBool, el), Not(uf("rv_isnil", SBool, v))))
		st.assume(Implies(Eq(k, IntLit(22)), And(Eq(uf("rv_type", SAny, el), uf("rt_elem", SAny, uf("rv_type", SAny, v))), Eq(uf("rv_canset", SBool, el), uf("rv_valid", SBool, el)))))
		return done(el)
	case "(reflect.Value).Set":
		v := e.asTerm(recv, vs)
		x := e.asTerm(args[0], vs)
		// identical types are assignable (Go spec, assignability)
		st.assume(Implies(Eq(uf("rv_type", SAny, x), uf("rv_type", SAny, v)), uf("rt_assignable", SBool, uf("rv_type", SAny, x), uf("rv_type", SAny, v))))
		safe("Value.Set", And(uf("rv_canset", SBool, v), uf("rv_valid", SBool, x), uf("rt_assignable", SBool, uf("rv_type", SAny, x), uf("rv_type", SAny, v))), "Value.Set of a valid, assignable Value into a settable Value")
		st.Counters["calls:rvset"] = App(SInt, "+", r.counter(st, "calls:rvset"), IntLit(1))
		// Set changes what the receiver's storage holds. Values are immutable terms here, so the effect is
		// modelled as a functional update of the variable / element the receiver was loaded from: it now holds a
		// Value with the same type and settability whose Interface() is that of x (A-LIB; other copies of the
		// same Value are not updated — the verified functions keep none).
		if ci, ok := in.(ssa.CallInstruction); ok && len(ci.Common().Args) > 0 {
			if ld, ok := ci.Common().Args[0].(*ssa.UnOp); ok && ld.Op == token.MUL {
				nv := e.freshConst("rv_afterset", vs)
				st.assume(uf("rv_valid", SBool, nv))
				st.assume(Eq(uf("rv_type", SAny, nv), uf("rv_type", SAny, v)))
				st.assume(Eq(uf("rv_canset", SBool, nv), uf("rv_canset", SBool, v)))
				st.assume(Eq(uf("rv_iface", SAny, nv), uf("rv_iface", SAny, x)))
				r.store(st, fr, r.val(st, fr, ld.X), nv, ld.Type(), in)
			}
		}
		return done()
	case "(reflect.Value).Call":
		v := e.asTerm(recv, vs)
		t := uf("rv_type", SAny, v)
		argc := IntLit(0)
		if sv, ok := args[0].(*SliceV); ok {
			argc = sv.Len
		}
		n := uf("rt_numin", SInt, t)
		arity := Ite(uf("rt_variadic", SBool, t), App(SBool, ">=", argc, App(SInt, "-", n, IntLit(1))), Eq(argc, n))
		safe("Value.Call", And(uf("rv_valid", SBool, v), Eq(kindOf(t), IntLit(19)), Not(uf("rv_isnil", SBool, v)), arity), "Value.Call of a non-nil func Value with matching arity")
		st.Counters["rvcalls"] = App(SInt, "+", r.counter(st, "rvcalls"), IntLit(1))
		res := e.freshVal(st, sig.Results().At(0).Type(), "rv_callres")
		if sv, ok := res.(*SliceV); ok {
			st.assume(Eq(sv.Len, uf("rt_numout", SInt, t)))
		}
		return done(res)
	case "(reflect.Value).TryRecv":
		x := e.freshConst("tryrecv", vs)
		ok := e.freshConst("tryrecv_ok", SBool)
		st.assume(Implies(ok, uf("rv_valid", SBool, x)))
		return done(x, ok)
	case "(reflect.Value).Pointer":
		v := e.asTerm(recv, vs)
		return done(uf("rv_pointer", e.sortOf(sig.Results().At(0).Type()), v))
	}
	return nil
}
