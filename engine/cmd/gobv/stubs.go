package main

import (
	"fmt"
	"go/types"
	"strings"

	"golang.org/x/tools/go/ssa"
)

// atomicOp: sequentially consistent read-modify-write on the exact bit-vector value. The value observed
// by each operation is arbitrary (any interference by other goroutines); per-function contracts are stated
// relative to the observed values apre(k)/apost(k) (k-th atomic operation of this call, from 0).
func (r *Run) atomicOp(st *State, fr *Frame, name string, recv T, args []Val, sig *types.Signature, dst ssa.Value, in ssa.Instruction) []*State {
	e := r.e
	w := 64
	if strings.Contains(name, "Int32") || strings.Contains(name, "Uint32") {
		w = 32
	}
	if !e.bv {
		e.fail("atomic operation %s in an int-mode function (declare mode bv)", name)
		r.setResult(st, fr, dst, r.freshResults(st, sig, "atomic"))
		return nil
	}
	k := 0
	fmt.Sscan(st.Facts["atomics"], &k)
	pre := e.freshConst(fmt.Sprintf("apre%d", k), BV(w))
	post := pre
	var res []Val
	op := name[strings.LastIndex(name, ".")+1:]
	switch op {
	case "Load":
		res = []Val{pre}
	case "Add":
		d := e.asTerm(args[0], BV(w))
		post = App(BV(w), "bvadd", pre, d)
		res = []Val{post}
	case "Store":
		post = e.asTerm(args[0], BV(w))
	case "CompareAndSwap":
		old := e.asTerm(args[0], BV(w))
		nw := e.asTerm(args[1], BV(w))
		ok := e.freshConst(fmt.Sprintf("cas%d", k), SBool)
		st.assume(Eq(ok, Eq(pre, old)))
		post = Ite(ok, nw, pre)
		res = []Val{ok}
	case "Swap":
		post = e.asTerm(args[0], BV(w))
		res = []Val{pre}
	default:
		e.fail("atomic op %s", name)
		res = r.freshResults(st, sig, "atomic")
	}
	st.Ghost[fmt.Sprintf("atomic.pre:%d", k)] = pre
	st.Ghost[fmt.Sprintf("atomic.post:%d", k)] = post
	st.Ghost[fmt.Sprintf("atomic.ref:%d", k)] = recv
	st.Ghost[fmt.Sprintf("atomic.op:%d", k)] = e.strConst(op)
	st.Facts["atomics"] = fmt.Sprintf("%d", k+1)
	r.setResult(st, fr, dst, res)
	return nil
}

// reflectCall: trusted specification of package reflect (DESIGN §4). Values of type reflect.Value and
// reflect.Type are opaque; the predicates the package relies on are uninterpreted functions.
func (r *Run) reflectCall(st *State, fr *Frame, name string, recv Val, args []Val, sig *types.Signature, dst ssa.Value, in ssa.Instruction) []*State {
	e := r.e
	if !strings.Contains(name, "reflect.") {
		return nil
	}
	vs := Sort("X_reflect.Value")
	e.declSort(vs)
	done := func(v ...Val) []*State {
		e.handled = true
		r.setResult(st, fr, dst, v)
		r.afterCall(st, fr, name, args, v, sig, in)
		return nil
	}
	uf := func(fn string, res Sort, a ...T) T {
		var so []Sort
		for _, x := range a {
			so = append(so, x.So)
		}
		return App(res, e.namedFun(fn, so, res), a...)
	}
	switch name {
	case "reflect.ValueOf":
		x := e.asTerm(args[0], SAny)
		v := uf("rv_of", vs, x)
		st.assume(Eq(uf("rv_iface", SAny, v), x))
		st.assume(Eq(uf("rv_valid", SBool, v), Not(Eq(x, NilOf(SAny)))))
		return done(v)
	case "(reflect.Value).Interface":
		v := e.asTerm(recv, vs)
		e.safety(st, fr, in, "rvvalid", uf("rv_valid", SBool, v), "reflect.Value.Interface on a valid Value at "+e.posOf(in))
		return done(uf("rv_iface", SAny, v))
	case "(reflect.Value).Kind":
		v := e.asTerm(recv, vs)
		k := uf("rv_kind", e.sortOf(sig.Results().At(0).Type()), v)
		return done(k)
	case "(reflect.Value).TryRecv":
		v := e.asTerm(recv, vs)
		x := e.freshConst("tryrecv", vs)
		ok := e.freshConst("tryrecv_ok", SBool)
		st.assume(Implies(ok, uf("rv_valid", SBool, x)))
		_ = v
		return done(x, ok)
	case "(reflect.Value).IsNil":
		v := e.asTerm(recv, vs)
		return done(uf("rv_isnil", SBool, v))
	case "(reflect.Value).Pointer":
		v := e.asTerm(recv, vs)
		return done(uf("rv_pointer", e.sortOf(sig.Results().At(0).Type()), v))
	}
	return nil
}

func tryReplay(e *Engine, o *Obligation) (bool, string) { return false, "" }
