package main

import (
	"go/types"

	"golang.org/x/tools/go/ssa"
)

func (r *Run) atomicOp(st *State, fr *Frame, name string, recv T, args []Val, sig *types.Signature, dst ssa.Value, in ssa.Instruction) []*State {
	r.setResult(st, fr, dst, r.freshResults(st, sig, "atomic"))
	return nil
}

func (r *Run) reflectCall(st *State, fr *Frame, name string, recv Val, args []Val, sig *types.Signature, dst ssa.Value, in ssa.Instruction) []*State {
	return nil
}

func tryReplay(e *Engine, o *Obligation) (bool, string) { return false, "" }
