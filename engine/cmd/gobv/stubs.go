package main

import (
	"fmt"
	"go/types"
	"strings"

	"golang.org/x/tools/go/ssa"
)

// atomicOp: sequentially consistent read-modify-write on the exact bit-vector value. The value observed
// by each operation is arbitrary (any interference by other goroutines); per-function contracts are stated
// relative to the observed values apre(k)/apost(k) (k-th atomic operation of this call, from 0).
func (r *Run) atomicOp(st *State, fr *Frame, name string, recv T, args []Val, sig *types.Signature, dst ssa.Value, in ssa.Instruction) []*State {
	e := r.e
	w := 64
	if strings.Contains(name, "Int32") || strings.Contains(name, "Uint32") {
		w = 32
	}
	if !e.bv {
		e.fail("atomic operation %s in an int-mode function (declare mode bv)", name)
		r.setResult(st, fr, dst, r.freshResults(st, sig, "atomic"))
		return nil
	}
	k := 0
	fmt.Sscan(st.Facts["atomics"], &k)
	pre := e.freshConst(fmt.Sprintf("apre%d", k), BV(w))
	post := pre
	var res []Val
	op := name[strings.LastIndex(name, ".")+1:]
	switch op {
	case "Load":
		res = []Val{pre}
	case "Add":
		d := e.asTerm(args[0], BV(w))
		post = App(BV(w), "bvadd", pre, d)
		res = []Val{post}
	case "Store":
		post = e.asTerm(args[0], BV(w))
	case "CompareAndSwap":
		old := e.asTerm(args[0], BV(w))
		nw := e.asTerm(args[1], BV(w))
		ok := e.freshConst(fmt.Sprintf("cas%d", k), SBool)
		st.assume(Eq(ok, Eq(pre, old)))
		post = Ite(ok, nw, pre)
		res = []Val{ok}
	case "Swap":
		post = e.asTerm(args[0], BV(w))
		res = []Val{pre}
	default:
		e.fail("atomic op %s", name)
		res = r.freshResults(st, sig, "atomic")
	}
	st.Ghost[fmt.Sprintf("atomic.pre:%d", k)] = pre
	st.Ghost[fmt.Sprintf("atomic.post:%d", k)] = post
	st.Ghost[fmt.Sprintf("atomic.ref:%d", k)] = recv
	st.Ghost[fmt.Sprintf("atomic.op:%d", k)] = e.strConst(op)
	st.Facts["atomics"] = fmt.Sprintf("%d", k+1)
	r.setResult(st, fr, dst, res)
	return nil
}

func (r *Run) reflectCall(st *State, fr *Frame, name string, recv Val, args []Val, sig *types.Signature, dst ssa.Value, in ssa.Instruction) []*State {
	return nil
}

func tryReplay(e *Engine, o *Obligation) (bool, string) { return false, "" }
