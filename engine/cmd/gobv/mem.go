package main

import (
	"fmt"
	"go/types"
	"regexp"
	"sort"
	"strings"

	"golang.org/x/tools/go/ssa"
)

// ---------------------------------------------------------------------------------------------
// Values

// Val is a symbolic value: T (scalar), *SliceV, *StructV, *TupleV, *Addr, *Closure, *BoundMethod.
type Val interface{}

type SliceV struct {
	Len  T
	At   string // function symbol Int -> Elem
	Elem Sort
	Nil  T
	// write-back origin: where this slice value was loaded from (value semantics, see DESIGN 2.3)
	Org    *Addr
	OrgOff T // offset of this view inside the origin (for reslices)
	OrgAt  string
	ElemT  types.Type
	Src    *Addr // provenance: guarded field whose backing array this value shares (for alias obligations)
	Ext    bool  // the backing array is visible to the caller (a parameter slice or a reslice of one)
}

func (s *SliceV) at(i T) T { return App(s.Elem, s.At, i) }

type StructV struct {
	Typ *types.Struct
	F   []Val
}

type TupleV struct{ V []Val }

type AddrKind int

const (
	ACell AddrKind = iota
	AField
	AElem
	AGlobal
	ASubField // field of an opaque struct value held in a local cell
)

// Addr is a structured pointer.
type Addr struct {
	Kind   AddrKind
	Cell   *Cell
	Region string // field region base name ("Buffer.offset")
	Ref    T
	FieldT types.Type
	Slice  *SliceV
	Idx    T
	Global *ssa.Global
	Owner  *types.Named // struct type that owns the field
	FName  string
}

type Cell struct {
	ID   int
	Name string
	Typ  types.Type
}

type Closure struct {
	Fn    *ssa.Function
	Binds []Val
	Term  T // Fn-sorted term standing for this closure
}

type BoundMethod struct {
	Fn   *ssa.Function
	Recv Val
	Name string // for external methods: full name
	Term T
}

// ---------------------------------------------------------------------------------------------
// Engine-wide tables (per analysed function run)

type RegionMeta struct {
	Name string
	Args []Sort
	Res  Sort
}

type Engine struct {
	prog           *ssa.Program
	pkg            *ssa.Package
	cs             *Contracts
	funcs          map[string]*ssa.Function // by contract-style name
	readOwnedCache map[string]bool
	renameNotes    []string
	litElems       map[string]map[int64]Val // At function of a literal slice -> elements stored at literal indices
	baseClosures   map[string][]ClosureSig
	loopsHit       map[string]bool
	calledFns      map[*ssa.Function]bool
	replayInfo     map[string]*ReplayInfo
	repoDir        string
	curExit        *ExitInfo
	fnName         map[*ssa.Function]string
	decls          []string
	declSet        map[string]bool
	regions        map[string]*RegionMeta
	bv             bool // current function analysed in bit-vector mode
	queries        []*Query
	curFn          string
	curProps       []string
	notes          []string // assumptions / abstractions used while analysing the current function
	closures       map[string]*Closure
	methods        map[string]*BoundMethod
	cellSeq        int
	pathCount      int
	errors         []string
	trace          bool
	assumed        map[string]bool
	strConsts      map[string]string

	nested           map[string]*NestedInfo
	loaded           map[string]*Addr
	boxedSlices      map[string]*SliceV
	boxedStructs     map[string]*StructV
	boxedTypes       map[string]types.Type
	libUsed          map[string]bool
	usedContracts    map[string]bool
	doneOf           map[string]T
	globalFuncs      map[string]*ssa.Function
	ifaceBind        map[string]string
	initFuncs        map[string]bool
	lockOrder        []string
	bvFiles          map[string]bool
	specDefs         map[string]*SpecDef
	ghostFns         map[string]*GhostFn
	safeNilOn        bool
	exploreAllPanics bool
	handled          bool
	capturedNames    map[string]bool     // fn|local: locals captured by some closure of fn
	makeFuncs        map[string]*Closure // reflect.MakeFunc values -> their Go closure
	spawningFns      map[string]bool     // functions that start goroutines or register AfterFunc hooks
	sitesHit         map[string]bool
	entered          map[string]bool
}

func (e *Engine) note(format string, a ...interface{}) {
	s := fmt.Sprintf(format, a...)
	if e.assumed == nil {
		e.assumed = map[string]bool{}
	}
	if !e.assumed[s] {
		e.assumed[s] = true
		e.notes = append(e.notes, s)
	}
}

func (e *Engine) decl(text string) {
	e.decls = append(e.decls, text)
}

func (e *Engine) declOnce(key, text string) {
	if e.declSet[key] {
		return
	}
	e.declSet[key] = true
	e.decls = append(e.decls, text)
}

func (e *Engine) declSort(so Sort) {
	s := string(so)
	switch so {
	case SInt, SBool, SRef, SAny, SStr, SFn, SChan:
		return
	}
	if so.IsBV() {
		return
	}
	e.declOnce("sort:"+s, fmt.Sprintf("(declare-sort %s 0)", s))
}

func (e *Engine) freshConst(hint string, so Sort) T {
	e.declSort(so)
	n := freshName(hint)
	e.decl(fmt.Sprintf("(declare-fun %s () %s)", n, so))
	return T{n, so}
}

func (e *Engine) freshFun(hint string, args []Sort, res Sort) string {
	e.declSort(res)
	for _, a := range args {
		e.declSort(a)
	}
	n := freshName(hint)
	as := make([]string, len(args))
	for i, a := range args {
		as[i] = string(a)
	}
	e.decl(fmt.Sprintf("(declare-fun %s (%s) %s)", n, strings.Join(as, " "), res))
	return n
}

// namedFun declares (once) an uninterpreted function with a stable name.
func (e *Engine) namedFun(name string, args []Sort, res Sort) string {
	name = sanitize(name)
	e.declSort(res)
	as := make([]string, len(args))
	for i, a := range args {
		e.declSort(a)
		as[i] = string(a)
	}
	e.declOnce("fun:"+name, fmt.Sprintf("(declare-fun %s (%s) %s)", name, strings.Join(as, " "), res))
	return name
}

func (e *Engine) defineFun(hint string, params []T, res Sort, body T) string {
	n := freshName(hint)
	ps := make([]string, len(params))
	for i, p := range params {
		ps[i] = fmt.Sprintf("(%s %s)", p.S, p.So)
	}
	e.declSort(res)
	e.decl(fmt.Sprintf("(define-fun %s (%s) %s %s)", n, strings.Join(ps, " "), res, body.S))
	return n
}

// ---------------------------------------------------------------------------------------------
// Go type -> representation

func (e *Engine) intSort(b *types.Basic) Sort {
	if !e.bv {
		return SInt
	}
	switch b.Kind() {
	case types.Int8, types.Uint8:
		return BV(8)
	case types.Int16, types.Uint16:
		return BV(16)
	case types.Int32, types.Uint32:
		return BV(32)
	default:
		return BV(64)
	}
}

func isUnsigned(t types.Type) bool {
	if b, ok := t.Underlying().(*types.Basic); ok {
		return b.Info()&types.IsUnsigned != 0
	}
	return false
}

func intBits(t types.Type) int {
	if b, ok := t.Underlying().(*types.Basic); ok {
		switch b.Kind() {
		case types.Int8, types.Uint8:
			return 8
		case types.Int16, types.Uint16:
			return 16
		case types.Int32, types.Uint32:
			return 32
		}
	}
	return 64
}

// typeKey is a stable printable name for a type, used in region and sort names.
var anyWord = regexp.MustCompile(`\bany\b`)

func typeKey(t types.Type) string {
	s := types.TypeString(t, func(p *types.Package) string {
		if p.Path() == "github.com/joeycumines/go-bigbuff" {
			return ""
		}
		return p.Name()
	})
	// `any` and `interface{}` are the same type
	return anyWord.ReplaceAllString(s, "interface{}")
}

// sortOf maps a Go type to the sort of its scalar representation ("" if compound).
func (e *Engine) sortOf(t types.Type) Sort {
	if _, ok := t.(*types.TypeParam); ok {
		if _, isChan := coreType(t).(*types.Chan); isChan {
			return SChan
		}
		return SAny
	}
	switch u := t.Underlying().(type) {
	case *types.Basic:
		switch {
		case u.Info()&types.IsBoolean != 0:
			return SBool
		case u.Info()&types.IsInteger != 0:
			return e.intSort(u)
		case u.Info()&types.IsString != 0:
			return SStr
		case u.Kind() == types.UnsafePointer:
			return SRef
		case u.Kind() == types.UntypedNil:
			return SAny
		case u.Info()&types.IsFloat != 0:
			return Sort("Float")
		}
		return Sort("Opaque")
	case *types.Pointer, *types.Map:
		return SRef
	case *types.Interface:
		if _, ok := t.(*types.TypeParam); ok {
			return SAny
		}
		return SAny
	case *types.Signature:
		return SFn
	case *types.Chan:
		return SChan
	case *types.Struct:
		if n, ok := t.(*types.Named); ok && n.Obj().Pkg() != nil && n.Obj().Pkg().Path() != "github.com/joeycumines/go-bigbuff" {
			// external struct types are opaque values
			return Sort("X_" + sanitize(n.Obj().Pkg().Name()+"."+n.Obj().Name()))
		}
		return ""
	case *types.Slice, *types.Tuple, *types.Array:
		return ""
	}
	if _, ok := t.(*types.TypeParam); ok {
		return SAny
	}
	return Sort("Opaque")
}

func isOpaqueStruct(t types.Type) bool {
	if _, ok := t.Underlying().(*types.Struct); ok {
		if n, ok := t.(*types.Named); ok && n.Obj().Pkg() != nil && n.Obj().Pkg().Path() != "github.com/joeycumines/go-bigbuff" {
			return true
		}
	}
	return false
}

// typeParamChan: a type parameter whose core type is a channel (C chan V).
func coreType(t types.Type) types.Type {
	if tp, ok := t.(*types.TypeParam); ok {
		if iface, ok := tp.Constraint().Underlying().(*types.Interface); ok {
			if iface.NumEmbeddeds() == 1 {
				return iface.EmbeddedType(0).Underlying()
			}
		}
		return tp.Underlying()
	}
	return t.Underlying()
}

// ---------------------------------------------------------------------------------------------
// State

type LockMode int

const (
	LockW LockMode = iota
	LockR
)

type HeldLock struct {
	Class string // "Buffer.mutex"
	Base  T      // object the lock belongs to
	Key   T      // identity of the mutex itself
	Mode  LockMode
	Depth int // frame depth at acquisition (informational)
}

type Deferred struct {
	Fn       Val
	Args     []Val
	Instr    *ssa.Defer
	Call     *ssa.CallCommon
	Injected string     // pending defer carried across a loop cut (label of the pending-defer clause)
	InjT     types.Type // type of the variable named by the pending-defer clause
}

type Frame struct {
	Fn        *ssa.Function
	Vals      map[ssa.Value]Val
	Binds     []Val
	Block     *ssa.BasicBlock
	Prev      *ssa.BasicBlock
	PC        int
	Defers    []Deferred
	InDefers  bool // currently draining the defer stack
	AfterDef  int  // 0 = resume after RunDefers instr, 1 = propagate panic, 2 = finish return
	Dst       ssa.Value
	OnRet     string // special continuation tag
	Args      []Val
	Cells     map[string]*Cell   // name -> cell (source-named locals; the latest declaration wins)
	CellsAll  map[string][]*Cell // name -> all cells of that name in allocation order (name__k in specs)
	LoopSeen  map[int]bool
	Results   []Val
	CallSite  ssa.Instruction
	Inlined   string
	OnRetData interface{}
}

type State struct {
	Hyps      []T
	Cells     map[*Cell]Val
	Heap      map[string]string // region -> current symbol
	Frames    []*Frame
	Locks     []HeldLock
	Panicking bool
	PanicVal  Val
	Fresh     []T // refs allocated on this path
	Escaped   map[string]bool
	OldHeap   map[string]string
	OldSet    bool
	Path      []string
	Ghost     map[string]Val
	Facts     map[string]string // misc per-path facts (cond -> lock, etc.)
	Counters  map[string]T
	Done      bool
	ActionOld map[string]map[string]string
	Entry     map[string]Val
	Shared    map[*Cell]string // cells captured by a closure that now runs concurrently: "r" (it reads) or "w" (it writes)
}

func (s *State) clone() *State {
	n := *s
	n.Hyps = append([]T(nil), s.Hyps...)
	n.Cells = make(map[*Cell]Val, len(s.Cells))
	for k, v := range s.Cells {
		n.Cells[k] = v
	}
	n.Heap = make(map[string]string, len(s.Heap))
	for k, v := range s.Heap {
		n.Heap[k] = v
	}
	n.Frames = make([]*Frame, len(s.Frames))
	for i, f := range s.Frames {
		nf := *f
		nf.Vals = make(map[ssa.Value]Val, len(f.Vals))
		for k, v := range f.Vals {
			nf.Vals[k] = v
		}
		nf.Defers = append([]Deferred(nil), f.Defers...)
		nf.Cells = make(map[string]*Cell, len(f.Cells))
		for k, v := range f.Cells {
			nf.Cells[k] = v
		}
		nf.CellsAll = make(map[string][]*Cell, len(f.CellsAll))
		for k, v := range f.CellsAll {
			nf.CellsAll[k] = append([]*Cell(nil), v...)
		}
		nf.LoopSeen = make(map[int]bool, len(f.LoopSeen))
		for k, v := range f.LoopSeen {
			nf.LoopSeen[k] = v
		}
		n.Frames[i] = &nf
	}
	n.Locks = append([]HeldLock(nil), s.Locks...)
	n.Fresh = append([]T(nil), s.Fresh...)
	n.Escaped = make(map[string]bool, len(s.Escaped))
	for k, v := range s.Escaped {
		n.Escaped[k] = v
	}
	n.Path = append([]string(nil), s.Path...)
	n.Ghost = make(map[string]Val, len(s.Ghost))
	for k, v := range s.Ghost {
		n.Ghost[k] = v
	}
	n.Facts = make(map[string]string, len(s.Facts))
	for k, v := range s.Facts {
		n.Facts[k] = v
	}
	n.Shared = make(map[*Cell]string, len(s.Shared))
	for k, v := range s.Shared {
		n.Shared[k] = v
	}
	n.Counters = make(map[string]T, len(s.Counters))
	for k, v := range s.Counters {
		n.Counters[k] = v
	}
	return &n
}

func (s *State) top() *Frame { return s.Frames[len(s.Frames)-1] }

func (s *State) assume(t T) {
	if t.S == "true" {
		return
	}
	s.Hyps = append(s.Hyps, t)
}

func copyHeap(h map[string]string) map[string]string {
	n := make(map[string]string, len(h))
	for k, v := range h {
		n[k] = v
	}
	return n
}

// ---------------------------------------------------------------------------------------------
// Heap regions

func (e *Engine) region(st *State, name string, args []Sort, res Sort) string {
	if sym, ok := st.Heap[name]; ok {
		return sym
	}
	if _, ok := e.regions[name]; !ok {
		e.regions[name] = &RegionMeta{Name: name, Args: args, Res: res}
	}
	sym := e.namedFun("H_"+name+"@0", args, res)
	st.Heap[name] = sym
	return sym
}

func (e *Engine) regionRead(st *State, name string, args []Sort, res Sort, at ...T) T {
	return App(res, e.region(st, name, args, res), at...)
}

// regionWrite1 updates a unary region at ref.
func (e *Engine) regionWrite1(st *State, name string, res Sort, ref T, v T) {
	old := e.region(st, name, []Sort{ref.So}, res)
	r := T{"r!", ref.So}
	body := Ite(Eq(r, ref), v, App(res, old, r))
	st.Heap[name] = e.defineFun("H_"+name, []T{r}, res, body)
}

// regionWrite2 updates a binary region at (ref, k) with v.
func (e *Engine) regionWrite2(st *State, name string, ksort, res Sort, ref, k, v T) {
	old := e.region(st, name, []Sort{ref.So, ksort}, res)
	r := T{"r!", ref.So}
	kk := T{"k!", ksort}
	body := Ite(And(Eq(r, ref), Eq(kk, k)), v, App(res, old, r, kk))
	st.Heap[name] = e.defineFun("H_"+name, []T{r, kk}, res, body)
}

// regionWriteRow replaces the whole row (ref, *) of a binary region by function fn.
func (e *Engine) regionWriteRow(st *State, name string, ksort, res Sort, ref T, fn string) {
	old := e.region(st, name, []Sort{ref.So, ksort}, res)
	r := T{"r!", ref.So}
	kk := T{"k!", ksort}
	body := Ite(Eq(r, ref), App(res, fn, kk), App(res, old, r, kk))
	st.Heap[name] = e.defineFun("H_"+name, []T{r, kk}, res, body)
}

// havocRegionAt forgets the value of a region at one object.
func (e *Engine) havocRegionAt(st *State, name string, ref T) {
	m := e.regions[name]
	if m == nil {
		return
	}
	old := st.Heap[name]
	if old == "" {
		old = e.region(st, name, m.Args, m.Res)
	}
	if len(m.Args) == 1 {
		v := e.freshConst("hv_"+name, m.Res)
		e.regionWrite1(st, name, m.Res, ref, v)
	} else {
		fn := e.freshFun("hv_"+name, m.Args[1:], m.Res)
		e.regionWriteRow(st, name, m.Args[1], m.Res, ref, fn)
	}
}

// havocRegion forgets a whole region.
func (e *Engine) havocRegion(st *State, name string) {
	m := e.regions[name]
	if m == nil {
		return
	}
	old := st.Heap[name]
	st.Heap[name] = e.freshFun("H_"+name, m.Args, m.Res)
	if name == "ctx.cancelled" && old != "" {
		// cancellation is monotone: whatever else is forgotten, a cancelled context stays cancelled
		c := T{"c!q", SAny}
		nw := st.Heap[name]
		st.assume(Forall([]T{c}, []T{App(SBool, nw, c)}, Implies(App(SBool, old, c), App(SBool, nw, c))))
	}
}

func (e *Engine) havocAllHeap(st *State, why string) {
	names := make([]string, 0, len(e.regions))
	for n := range e.regions {
		names = append(names, n)
	}
	sort.Strings(names)
	// objects created on this path and not yet shared cannot be changed by anybody else
	var private []T
	for _, f := range st.Fresh {
		if f.So == SRef && !st.Escaped[f.S] {
			private = append(private, f)
		}
	}
	for _, n := range names {
		if e.immutableRegion(n) {
			continue
		}
		old := st.Heap[n]
		e.havocRegion(st, n)
		m := e.regions[n]
		if old == "" || m == nil || len(private) == 0 || len(m.Args) == 0 || m.Args[0] != SRef {
			continue
		}
		nw := st.Heap[n]
		for _, f := range private {
			if len(m.Args) == 1 {
				st.assume(Eq(App(m.Res, nw, f), App(m.Res, old, f)))
			} else if len(m.Args) == 2 {
				k := T{"k!q", m.Args[1]}
				st.assume(Forall([]T{k}, []T{App(m.Res, nw, f, k)}, Eq(App(m.Res, nw, f, k), App(m.Res, old, f, k))))
			}
		}
	}
}

// immutableRegion: regions that no goroutine changes once the object is shared (fields declared
// `frozen`, channel capacities, the Locker of a cond): a coarse havoc need not forget them.
func (e *Engine) immutableRegion(name string) bool {
	if name == "chan.cap" || name == "Cond.L" {
		return true
	}
	// per-execution ghost counters (events of this goroutine) are not shared state
	if strings.HasPrefix(name, "cnt:") || strings.HasPrefix(name, "cnt.") || name == "chan.sent" || name == "chan.recvd" {
		return true
	}
	base := name
	for _, suf := range []string{".len", ".nil", ".at"} {
		base = strings.TrimSuffix(base, suf)
	}
	parts := strings.SplitN(base, ".", 2)
	if len(parts) == 2 && e.guardOf(parts[0], parts[1]).Kind == "frozen" {
		return true
	}
	return false
}

// fieldRegionName names the region of field f of struct type owner.
func fieldRegionName(owner string, f string) string { return owner + "." + f }

// readField reads field (of Go type ft) of the object ref; owner is the struct type key.
func (e *Engine) readLoc(st *State, base string, ft types.Type, ref T) Val {
	switch u := ft.Underlying().(type) {
	case *types.Slice:
		es := e.sortOf(u.Elem())
		if es == "" {
			e.fail("slice of compound element type %s in heap", typeKey(ft))
			es = SAny
		}
		lenT := e.regionRead(st, base+".len", []Sort{SRef}, SInt, ref)
		nilT := e.regionRead(st, base+".nil", []Sort{SRef}, SBool, ref)
		if _, seen := st.Facts["len>=0:"+lenT.S]; !seen && st.Facts != nil {
			// type invariant of slices: non-negative length, nil slices are empty
			st.Facts["len>=0:"+lenT.S] = ""
			st.assume(App(SBool, ">=", lenT, IntLit(0)))
			st.assume(Implies(nilT, Eq(lenT, IntLit(0))))
		}
		atSym := e.region(st, base+".at", []Sort{SRef, SInt}, es)
		i := T{"i!", SInt}
		at := e.defineFun("row_"+base, []T{i}, es, App(es, atSym, ref, i))
		org := &Addr{Kind: AField, Region: base, Ref: ref, FieldT: ft}
		return &SliceV{Len: lenT, At: at, Elem: es, Nil: nilT, ElemT: u.Elem(),
			Org: org, OrgOff: IntLit(0), OrgAt: at, Src: org}
	case *types.Struct:
		if isOpaqueStruct(ft) {
			so := e.sortOf(ft)
			return e.regionRead(st, base, []Sort{SRef}, so, ref)
		}
		// nested struct value: read each field from the nested object
		nref := e.nestedRef(base, ref)
		return e.readStruct(st, ft, nref)
	}
	so := e.sortOf(ft)
	if so == "" {
		e.fail("unsupported heap type %s", typeKey(ft))
		so = SAny
	}
	return e.regionRead(st, base, []Sort{SRef}, so, ref)
}

func (e *Engine) nestedRef(base string, ref T) T {
	fn := e.namedFun("fld_"+base, []Sort{SRef}, SRef)
	return App(SRef, fn, ref)
}

func (e *Engine) structKey(t types.Type) string {
	if p, ok := t.(*types.Pointer); ok {
		t = p.Elem()
	}
	if n, ok := t.(*types.Named); ok {
		return n.Origin().Obj().Name()
	}
	return "anon_" + sanitize(typeKey(t))
}

func (e *Engine) readStruct(st *State, t types.Type, ref T) Val {
	s := t.Underlying().(*types.Struct)
	key := e.structKey(t)
	sv := &StructV{Typ: s}
	for i := 0; i < s.NumFields(); i++ {
		f := s.Field(i)
		sv.F = append(sv.F, e.readLoc(st, fieldRegionName(key, f.Name()), f.Type(), ref))
	}
	return sv
}

func (e *Engine) writeStruct(st *State, t types.Type, ref T, v Val) {
	s := t.Underlying().(*types.Struct)
	key := e.structKey(t)
	sv, ok := v.(*StructV)
	if !ok {
		e.fail("writeStruct: not a struct value for %s: %T", key, v)
		return
	}
	for i := 0; i < s.NumFields(); i++ {
		f := s.Field(i)
		e.writeLoc(st, fieldRegionName(key, f.Name()), f.Type(), ref, sv.F[i])
	}
}

func (e *Engine) writeLoc(st *State, base string, ft types.Type, ref T, v Val) {
	switch u := ft.Underlying().(type) {
	case *types.Slice:
		sv := e.asSlice(v, u)
		es := sv.Elem
		e.regionWrite1(st, base+".len", SInt, ref, sv.Len)
		e.regionWrite1(st, base+".nil", SBool, ref, sv.Nil)
		e.region(st, base+".at", []Sort{SRef, SInt}, es)
		e.regionWriteRow(st, base+".at", SInt, es, ref, sv.At)
		return
	case *types.Struct:
		if isOpaqueStruct(ft) {
			so := e.sortOf(ft)
			e.regionWrite1(st, base, so, ref, e.asTerm(v, so))
			return
		}
		e.writeStruct(st, ft, e.nestedRef(base, ref), v)
		return
	}
	so := e.sortOf(ft)
	if so == "" {
		e.fail("unsupported heap write type %s", typeKey(ft))
		return
	}
	e.regionWrite1(st, base, so, ref, e.asTerm(v, so))
}

func (e *Engine) fail(format string, a ...interface{}) {
	msg := fmt.Sprintf(format, a...)
	e.errors = append(e.errors, e.curFn+": "+msg)
}

// asTerm coerces a value to a scalar term of the given sort.
func (e *Engine) asTerm(v Val, so Sort) T {
	switch x := v.(type) {
	case T:
		if x.So != so && so != "" {
			if x.S == "nil" {
				return NilOf(so)
			}
			// representation mismatch: box
			return e.convertSort(x, so)
		}
		return x
	case *Closure:
		return x.Term
	case *BoundMethod:
		return x.Term
	case *Addr:
		return e.addrTerm(x)
	case *SliceV:
		// slices boxed into interfaces etc.
		return e.boxCompound("slice", so)
	case *StructV:
		return e.boxCompound("struct", so)
	case nil:
		return NilOf(so)
	}
	e.fail("asTerm: unexpected %T", v)
	return e.freshConst("bad", so)
}

func (e *Engine) boxCompound(kind string, so Sort) T {
	if so == "" {
		so = SAny
	}
	return e.freshConst("box_"+kind, so)
}

func (e *Engine) convertSort(x T, so Sort) T {
	if x.So == so {
		return x
	}
	fn := e.namedFun("conv_"+sanitize(string(x.So))+"_to_"+sanitize(string(so)), []Sort{x.So}, so)
	return App(so, fn, x)
}

// addrTerm gives a Ref term for a structured address (when a pointer escapes into a scalar context).
func (e *Engine) addrTerm(a *Addr) T {
	switch a.Kind {
	case AField:
		fn := e.namedFun("addr_"+a.Region, []Sort{SRef}, SRef)
		return App(SRef, fn, a.Ref)
	case ACell:
		c := e.namedFun(fmt.Sprintf("addr_cell_%d", a.Cell.ID), nil, SRef)
		return T{c, SRef}
	case AGlobal:
		c := e.namedFun("addr_global_"+a.Global.Name(), nil, SRef)
		return T{c, SRef}
	}
	return e.freshConst("addr", SRef)
}

func (e *Engine) asSlice(v Val, u *types.Slice) *SliceV {
	switch x := v.(type) {
	case *SliceV:
		return x
	case T:
		if x.S == "nil" || strings.HasPrefix(x.S, "nil_") {
			return e.nilSlice(u)
		}
	case nil:
		return e.nilSlice(u)
	}
	e.fail("asSlice: unexpected %T %v", v, v)
	return e.nilSlice(u)
}

func (e *Engine) nilSlice(u *types.Slice) *SliceV {
	es := e.sortOf(u.Elem())
	if es == "" {
		es = SAny
	}
	at := e.freshFun("nilslice", []Sort{SInt}, es)
	return &SliceV{Len: IntLit(0), At: at, Elem: es, Nil: True, ElemT: u.Elem()}
}

// freshVal makes an unconstrained symbolic value of Go type t (with the type's basic range facts assumed).
func (e *Engine) freshVal(st *State, t types.Type, hint string) Val {
	switch u := t.Underlying().(type) {
	case *types.Slice:
		es := e.sortOf(u.Elem())
		if es == "" {
			es = SAny
		}
		l := e.freshConst(hint+"_len", SInt)
		st.assume(App(SBool, ">=", l, IntLit(0)))
		n := e.freshConst(hint+"_nil", SBool)
		st.assume(Implies(n, Eq(l, IntLit(0))))
		at := e.freshFun(hint+"_at", []Sort{SInt}, es)
		return &SliceV{Len: l, At: at, Elem: es, Nil: n, ElemT: u.Elem()}
	case *types.Struct:
		if isOpaqueStruct(t) {
			return e.freshConst(hint, e.sortOf(t))
		}
		sv := &StructV{Typ: u}
		for i := 0; i < u.NumFields(); i++ {
			sv.F = append(sv.F, e.freshVal(st, u.Field(i).Type(), hint+"_"+u.Field(i).Name()))
		}
		return sv
	case *types.Tuple:
		tv := &TupleV{}
		for i := 0; i < u.Len(); i++ {
			tv.V = append(tv.V, e.freshVal(st, u.At(i).Type(), fmt.Sprintf("%s_%d", hint, i)))
		}
		return tv
	}
	so := e.sortOf(t)
	if so == "" {
		so = SAny
	}
	c := e.freshConst(hint, so)
	e.assumeRange(st, c, t)
	return c
}

func (e *Engine) assumeRange(st *State, c T, t types.Type) {
	if e.bv || c.So != SInt {
		return
	}
	if b, ok := t.Underlying().(*types.Basic); ok && b.Info()&types.IsInteger != 0 {
		bits := intBits(t)
		if b.Info()&types.IsUnsigned != 0 {
			st.assume(App(SBool, ">=", c, IntLit(0)))
			if bits < 64 {
				st.assume(App(SBool, "<", c, IntLit(int64(1)<<uint(bits))))
			}
		} else if bits < 64 {
			st.assume(App(SBool, ">=", c, IntLit(-(int64(1) << uint(bits-1)))))
			st.assume(App(SBool, "<", c, IntLit(int64(1)<<uint(bits-1))))
		}
	}
}

func (e *Engine) zeroVal(st *State, t types.Type) Val {
	switch u := t.Underlying().(type) {
	case *types.Slice:
		return e.nilSlice(u)
	case *types.Struct:
		if isOpaqueStruct(t) {
			so := e.sortOf(t)
			e.declSort(so)
			return T{e.namedFun("zero_"+sanitize(string(so)), nil, so), so}
		}
		sv := &StructV{Typ: u}
		for i := 0; i < u.NumFields(); i++ {
			sv.F = append(sv.F, e.zeroVal(st, u.Field(i).Type()))
		}
		return sv
	case *types.Basic:
		switch {
		case u.Info()&types.IsBoolean != 0:
			return False
		case u.Info()&types.IsInteger != 0:
			if e.bv {
				return BVLit(0, e.intSort(u).BVWidth())
			}
			return IntLit(0)
		case u.Info()&types.IsString != 0:
			return e.strConst("")
		}
	}
	so := e.sortOf(t)
	if so == "" {
		so = SAny
	}
	switch so {
	case SRef, SAny, SFn, SChan:
		return NilOf(so)
	}
	e.declSort(so)
	return T{e.namedFun("zero_"+sanitize(string(so)), nil, so), so}
}

func (e *Engine) strConst(s string) T {
	if e.strConsts == nil {
		e.strConsts = map[string]string{}
	}
	if n, ok := e.strConsts[s]; ok {
		e.namedFun(n, nil, SStr)
		return T{n, SStr}
	}
	n := fmt.Sprintf("str_%d", len(e.strConsts))
	e.strConsts[s] = n
	e.namedFun(n, nil, SStr)
	return T{n, SStr}
}
