package bigbuff

import (
	"testing"
	"time"
)

func TestZZF7SetCleanerConfigNoWake(t *testing.T) {
	b := new(Buffer)
	defer b.Close()
	c, err := b.NewConsumer()
	if err != nil {
		t.Fatal(err)
	}
	defer c.Close()
	for i := 0; i < 10; i++ {
		if err := b.Put(nil, i); err != nil {
			t.Fatal(err)
		}
	}
	time.Sleep(100 * time.Millisecond)
	if err := b.SetCleanerConfig(CleanerConfig{Cleaner: FixedBufferCleaner(3, 1, nil), Cooldown: 5 * time.Millisecond}); err != nil {
		t.Fatal(err)
	}
	time.Sleep(500 * time.Millisecond)
	if n := b.Size(); n > 3 {
		t.Fatalf("FixedBufferCleaner(3,1) configured, buffer quiet for 100 cooldowns, but Size() = %d", n)
	}
}
