//go:build verif

package bigbuff

// F6 (C04): the timer goroutine of Buffer.cleanup re-broadcasts without holding the buffer mutex. If the cleanup
// goroutine has just recorded "a change arrived during the cooldown" but has not yet reached cond.Wait, the
// re-broadcast wakes nobody and the change is never acted upon. The hook only delays the cleanup goroutine
// between fn() and cond.Wait() in WaitCond, which is a legal schedule.

import (
	"sync"
	"sync/atomic"
	"testing"
	"time"
)

func TestZZF6LostRebroadcast(t *testing.T) {
	const cooldown = 300 * time.Millisecond
	b := new(Buffer)
	defer b.Close()
	b.SetCleanerConfig(CleanerConfig{Cleaner: DefaultCleaner, Cooldown: cooldown})

	var armed atomic.Bool
	paused := make(chan struct{}, 1)
	release := make(chan struct{})
	verifBeforeCondWait = func(c *sync.Cond) {
		if c == b.cond && armed.CompareAndSwap(true, false) {
			paused <- struct{}{}
			<-release
		}
	}
	defer func() { verifBeforeCondWait = nil }()

	c, err := b.NewConsumer()
	if err != nil {
		t.Fatal(err)
	}
	defer c.Close()
	time.Sleep(2 * cooldown) // let the cooldown started by the first broadcasts expire

	start := time.Now()
	if err := b.Put(nil, 1); err != nil { // the cleanup goroutine runs the cleaner and starts a cooldown
		t.Fatal(err)
	}
	time.Sleep(cooldown / 3)
	if v, err := c.Get(nil); err != nil || v != 1 {
		t.Fatal(v, err)
	}
	armed.Store(true)
	if err := c.Commit(); err != nil { // the last state change, inside the cooldown window
		t.Fatal(err)
	}
	select {
	case <-paused: // the cleanup goroutine saw the change, deferred it to the timer, and is about to Wait
	case <-time.After(5 * time.Second):
		t.Fatal("hook not reached")
	}
	time.Sleep(time.Until(start.Add(cooldown + cooldown/2))) // the timer fires and re-broadcasts meanwhile
	close(release)

	time.Sleep(5 * cooldown) // nothing else happens
	if n := b.Size(); n != 0 {
		t.Fatalf("the only consumer committed past the value and the buffer was quiet for 5 cooldowns, but Size() = %d", n)
	}
}
