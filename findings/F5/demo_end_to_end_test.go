package bigbuff

import (
	"testing"
	"time"
)

func TestZZC04FixedStuck(t *testing.T) {
	b := new(Buffer)
	defer b.Close()
	b.SetCleanerConfig(CleanerConfig{Cooldown: 100 * time.Millisecond, Cleaner: FixedBufferCleaner(10, 5, nil)})
	c, err := b.NewConsumer()
	if err != nil {
		t.Fatal(err)
	}
	defer c.Close()
	for i := 0; i < 11; i++ {
		if err := b.Put(nil, i); err != nil {
			t.Fatal(err)
		}
	}
	for i := 0; i < 11; i++ {
		if v, err := c.Get(nil); err != nil || v != i {
			t.Fatal(v, err)
		}
	}
	if err := c.Commit(); err != nil {
		t.Fatal(err)
	}
	// everything put has been consumed and committed inside the first cooldown window; nothing else happens
	time.Sleep(1500 * time.Millisecond)
	if n := b.Size(); n != 0 {
		t.Fatalf("all values committed by the only consumer, quiet for 15 cooldowns, but Size() = %d", n)
	}
}
