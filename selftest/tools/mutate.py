#!/usr/bin/env python3
"""Mutation analysis of the contracts: generates small syntactic mutants of the library's functions (relational /
arithmetic / logical operator flips, deleted call or assignment statements, off-by-one constants), keeps those that
compile, and runs the checks of the properties the enclosing function serves on a scratch copy. Survivors are
either equivalent mutants or point at contracts that are too weak; they are written to selftest/mutation_report.json
for triage. Nothing is written into /repo. Usage: mutate.py [file.go ...] [-j N] [-max N]"""
import json, os, re, shutil, subprocess, sys, tempfile, concurrent.futures, random

V = '/verif'
ENV = dict(os.environ, GOFLAGS='-mod=mod', GOPROXY='off', GOSUMDB='off', GOTOOLCHAIN='local')
# work on a frozen snapshot of the library (with its contracts), the engine binary, the baseline and the known findings,
# so that the analysis is not disturbed by (and does not constrain) work going on in /repo and /verif meanwhile
SNAP = tempfile.mkdtemp(prefix='mutsnap.')
REPO = os.path.join(SNAP, 'repo')
os.makedirs(REPO)
for g in os.listdir('/repo'):
    if g.endswith('.go') or g in ('go.mod', 'go.sum'):
        shutil.copy(os.path.join('/repo', g), REPO)
os.makedirs(os.path.join(SNAP, 'verif', 'baseline'))
shutil.copy(V + '/bin/gobv', os.path.join(SNAP, 'gobv'))
shutil.copy(V + '/baseline/obligations.json', os.path.join(SNAP, 'verif', 'baseline'))
shutil.copy(V + '/known_findings.json', os.path.join(SNAP, 'verif'))
GOBV = os.path.join(SNAP, 'gobv')
ENV['GOBV_VERIF_DIR'] = os.path.join(SNAP, 'verif')
import atexit
atexit.register(lambda: shutil.rmtree(SNAP, ignore_errors=True))
args = sys.argv[1:]
J = 4
MAX = 10 ** 9
OUT = V + '/selftest/mutation_report.json'
files = []
i = 0
while i < len(args):
    if args[i] == '-j':
        J = int(args[i + 1]); i += 2
    elif args[i] == '-o':
        OUT = args[i + 1]; i += 2
    elif args[i] == '-max':
        MAX = int(args[i + 1]); i += 2
    else:
        files.append(args[i]); i += 1
if not files:
    files = sorted(f for f in os.listdir(REPO) if f.endswith('.go') and not f.endswith('_test.go') and not f.startswith('zz_'))

# contract blocks: function name -> props
props = {}
cur = None
for l in open(REPO + '/zz_contracts_verif.go'):
    m = re.match(r'^//@ func (.+?)\s*$', l)
    if m:
        cur = m.group(1); props.setdefault(cur, set()); continue
    m = re.match(r'^//@\s+props\s+(.*)$', l)
    if m and cur:
        props[cur] |= set(m.group(1).split())
    for t in re.findall(r'\[(C\d\d(?:,C\d\d)*)\]', l):
        if cur:
            props[cur] |= set(t.split(','))
    if l.strip() == '':
        cur = None

def func_name(line):
    m = re.match(r'^func\s+(\(([^)]*)\)\s*)?([A-Za-z_]\w*)', line)
    if not m:
        return None
    name = m.group(3)
    if m.group(2):
        r = re.search(r'(\*?)\s*([A-Za-z_]\w*)(\[[^\]]*\])?\s*$', m.group(2))
        if r:
            return ('(*%s).%s' if r.group(1) else '(%s).%s') % (r.group(2), name)
    return name

file_of = {}   # top-level function -> file
for _f in sorted(g for g in os.listdir(REPO) if g.endswith('.go') and not g.endswith('_test.go') and not g.startswith('zz_')):
    for _l in open(os.path.join(REPO, _f)):
        _g = func_name(_l)
        if _g:
            file_of[_g] = _f

def props_of(fn):
    out = set()
    for k, v in props.items():
        if k == fn or k.startswith(fn + '$'):
            out |= v
    if out:
        return out
    # a helper without its own block is inlined into its callers: the properties of the functions of its file
    f = file_of.get(fn)
    for k, v in props.items():
        if file_of.get(k.split('$')[0]) == f:
            out |= v
    return out or {'C11', 'C12'}

OPS = [(' < ', ' <= '), (' <= ', ' < '), (' > ', ' >= '), (' >= ', ' > '), (' == ', ' != '), (' != ', ' == '),
       (' && ', ' || '), (' || ', ' && '), (' + ', ' - '), (' - ', ' + '), ('++', '--'), ('--', '++'),
       (' += ', ' -= '), (' -= ', ' += '), ('true', 'false'), ('false', 'true')]
STMT = re.compile(r'^\s*(defer\s+)?[\w.\[\]()*]+\((.*)\)\s*(//.*)?$')
ASSIGN = re.compile(r'^\s*[\w.\[\]*]+(, [\w.\[\]*]+)*\s*(=|\+=|-=)\s*[^=].*$')

muts = []
for f in files:
    src = open(os.path.join(REPO, f)).read().split('\n')
    fn = None
    depth_in = False
    for n, line in enumerate(src):
        g = func_name(line)
        if g:
            fn = g
        if line.startswith('}'):
            pass
        if fn is None or line.strip().startswith('//') or line.strip() == '' or line.startswith('func ') or line.startswith('import') or line.startswith('package'):
            continue
        code = line.split('//')[0]
        if '"' in code or '`' in code:
            code_ops = False  # do not mutate inside lines with string literals (messages)
        else:
            code_ops = True
        if code_ops:
            for a, b in OPS:
                idx = code.find(a)
                if idx >= 0:
                    muts.append((f, n, fn, 'op %s->%s' % (a.strip(), b.strip()), line[:idx] + b + line[idx + len(a):]))
            for m in re.finditer(r'(?<![\w.])([01])(?![\w.])', code):
                k = m.group(1)
                muts.append((f, n, fn, 'const %s->%s' % (k, '1' if k == '0' else '2' if k == '1' else k), line[:m.start()] + ('1' if k == '0' else '2') + line[m.end():]))
        s = line.strip()
        if STMT.match(line) and not s.startswith(('return', 'if', 'for', 'switch', 'case', 'go ', 'panic(')):
            muts.append((f, n, fn, 'delete statement', re.match(r'^\s*', line).group(0) + '_ = 0 // deleted: ' + s.replace('//', '')))
        elif code_ops and ASSIGN.match(line) and ':=' not in line and not s.startswith(('if', 'for', 'switch', 'case', 'return', 'var ')):
            muts.append((f, n, fn, 'delete assignment', re.match(r'^\s*', line).group(0) + '_ = 0 // deleted: ' + s.replace('//', '')))

random.Random(1).shuffle(muts)
muts = muts[:MAX]
print('candidate mutants:', len(muts), file=sys.stderr)

def run(m):
    f, n, fn, kind, newline = m
    d = tempfile.mkdtemp(prefix='mut.')
    try:
        for g in os.listdir(REPO):
            if g.endswith('.go') and not g.endswith('_test.go') or g in ('go.mod', 'go.sum'):
                shutil.copy(os.path.join(REPO, g), d)
        p = os.path.join(d, f)
        src = open(p).read().split('\n')
        old = src[n]
        src[n] = newline
        open(p, 'w').write('\n'.join(src))
        r = subprocess.run(['go', 'build', './...'], cwd=d, capture_output=True, text=True, env=ENV)
        if r.returncode != 0:
            return None
        r = subprocess.run(['go', 'vet', '-unusedresult=false', './...'], cwd=d, capture_output=True, text=True, env=ENV)
        killed_by = []
        for prop in sorted(props_of(fn)):
            out = tempfile.mkdtemp(prefix='mut.out.')
            r = subprocess.run([GOBV, 'check', '-p', prop, '-repo', d, '-out', out], capture_output=True, text=True, env=dict(ENV, GOBV_NO_REPLAY='1'))
            shutil.rmtree(out)
            v = [l.split('obligation=')[1].split()[0] for l in r.stdout.splitlines() if l.startswith('VIOLATION')]
            if r.returncode == 1 and v:
                killed_by.append((prop, v[0]))
                break
        return {'file': f, 'line': n + 1, 'func': fn, 'kind': kind, 'old': old.strip(), 'new': newline.strip(), 'props': sorted(props_of(fn)), 'killed_by': killed_by}
    finally:
        shutil.rmtree(d, ignore_errors=True)

res = []
with concurrent.futures.ThreadPoolExecutor(max_workers=J) as ex:
    for k, r in enumerate(ex.map(run, muts)):
        if r:
            res.append(r)
        if (k + 1) % 25 == 0:
            json.dump({'partial': k + 1, 'of': len(muts), 'compiled': len(res), 'killed': sum(1 for x in res if x['killed_by']), 'survivors': [x for x in res if not x['killed_by']]}, open(OUT, 'w'), indent=1)
            done = [x for x in res]
            print('%d/%d tried, %d compiled, %d killed' % (k + 1, len(muts), len(done), sum(1 for x in done if x['killed_by'])), file=sys.stderr)
surv = [r for r in res if not r['killed_by']]
rep = {'compiled': len(res), 'killed': len(res) - len(surv), 'survivors': surv}
json.dump(rep, open(OUT, 'w'), indent=1)
print('mutants compiled: %d, killed: %d, survivors: %d (%s)' % (len(res), len(res) - len(surv), len(surv), OUT))
by = {}
for s in surv:
    by.setdefault(s['func'], []).append(s)
for fn in sorted(by):
    print(fn)
    for s in by[fn]:
        print('   %s:%d %s   | %s  ->  %s' % (s['file'], s['line'], s['kind'], s['old'][:70], s['new'][:70]))
