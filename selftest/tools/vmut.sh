#!/bin/bash
# usage: vmut.sh <patch> <function>...   — apply a patch to a scratch copy of /repo and run gobv verify on it
set -e
patch=$1; shift
d=$(mktemp -d /tmp/vmut.XXXXXX)
trap 'rm -rf "$d"' EXIT
cp /repo/*.go /repo/go.mod /repo/go.sum "$d"/
(cd "$d" && patch -s -p1 < "$patch")
/verif/bin/gobv verify -repo "$d" "$@" 2>&1 | grep -v 'note:'
