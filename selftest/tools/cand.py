#!/usr/bin/env python3
"""usage: cand.py <candidate-name> <function>... — apply a candidate edit (selftest/candidates_round0*.json,
old->new replacement) to a scratch copy of /repo and run `gobv verify` on the named functions."""
import json, sys, os, glob, shutil, subprocess, tempfile
name = sys.argv[1]
cands = {}
for f in sorted(glob.glob('/verif/selftest/candidates_*.json')):
    d = json.load(open(f))
    for c in (d if isinstance(d, list) else d.get('candidates', [])):
        if isinstance(c, dict) and 'name' in c:
            cands[c['name']] = c
if name not in cands:
    sys.exit('unknown candidate ' + name)
c = cands[name]
d = tempfile.mkdtemp(prefix='cand.')
try:
    for f in glob.glob('/repo/*.go') + ['/repo/go.mod', '/repo/go.sum']:
        shutil.copy(f, d)
    edits = c.get('edits') or [c]
    for ed in edits:
        p = os.path.join(d, ed['file'])
        s = open(p).read()
        if s.count(ed['old']) < 1:
            sys.exit('old text not found in ' + ed['file'])
        s = s.replace(ed['old'], ed['new'], 1)
        open(p, 'w').write(s)
    print('## candidate', name, '- expect', c.get('expect'))
    out = subprocess.run(['/verif/bin/gobv', 'verify', '-repo', d] + sys.argv[2:], capture_output=True, text=True)
    for l in (out.stdout + out.stderr).splitlines():
        if 'note:' not in l:
            print(l[:260])
finally:
    shutil.rmtree(d)
