#!/usr/bin/env python3
import json
T='\t'
C=[]
def m(name, prop, file, old, new, expect, why, nth=None):
    d=dict(name=name, property=prop, file=file, old=old, new=new, expect=expect, why=why)
    if nth is not None: d['nth']=nth
    C.append(d)
m('c06_iter_ignore_stop','C06','chanpubsub.go',T+T+'if !stop() {\n'+T+T+T+'// Context was cancelled, or called more than once.\n'+T+T+T+'// WARNING: Does not block on any still-running iterator.\n'+T+T+T+'return\n'+T+T+'}',T+T+'stop()',
  'ChanPubSub.SubscribeContext$1/count:Unsubscribe','iterator unsubscribes a second time after the context hook already did')
m('c09_no_running_during_wait','C09','exclusive.go',T+T+'item.running = true\n','',
  'Exclusive.call$1/O1:elected-sets-running','two goroutines can both become runner of one item during a CallAfter wait')
m('c16_conflated_plain_afterfunc','C16','context.go',T+T+T+'ChainAfterFunc(ctx, ctx2, wg.Done)',T+T+T+'context.AfterFunc(ctx2, wg.Done)',
  'ConflatedContext/exit:waiter','waiter goroutine and hooks outlive an explicitly cancelled result')
m('c20_no_precancel_check','C20','attempt.go',T+'if ctx.Err() != nil {\n'+T+T+'close(c)\n'+T+T+'return c\n'+T+'}\n','',
  'LinearAttempt/ensures:precancelled','a value is produced although the context was cancelled beforehand')
m('c12_consumer_get_after_close','C12','consumer.go',T+'if err := c.ctx.Err(); err != nil {\n'+T+T+'return nil, err\n'+T+'}\n\n'+T+'out, v, err :=',T+'out, v, err :=',
  'consumer.Get/ensures:closed','Get on a closed consumer can still return a value')
m('c12_channel_commit_after_close','C12','channel.go',T+'if err := c.ctx.Err(); err != nil {\n'+T+T+'return err\n'+T+'}\n\n'+T+'pending := c.pending()',T+'pending := c.pending()',
  'Channel.Commit/ensures:closed','Commit succeeds on a closed Channel')
m('c19_results_len','C19','callable.go',T+T+'if len(results) != len(out) {',T+T+'if len(results) < len(out) {',
  'CallResults$1/ensures:len','extra result targets are silently accepted')
json.dump(C, open('/verif/selftest/candidates_round0c.json','w'), indent=1); print(len(C))
