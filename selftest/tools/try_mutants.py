#!/usr/bin/env python3
"""Validate candidate must-fail mutants: does each one compile and pass the 254 stable baseline tests?

Usage: try_mutants.py candidates.json [-j N] [--only name,...]
For every candidate {name, property, file, old, new, nth?, expect, why} a scratch copy of /repo is made
under a fresh mktemp dir (removed afterwards), `old` (its nth occurrence, default: must be unique) is
replaced by `new`, the package is built and the suite run with the baseline flags. Survivors are written
as unified diffs to /verif/selftest/mutants/<property>/<name>.patch and listed in index.json.
"""
import json, os, shutil, subprocess, sys, tempfile, concurrent.futures as cf

REPO = '/repo'
OUT = '/verif/selftest/mutants'
ENV = dict(os.environ, GOFLAGS='-mod=mod', GOPROXY='off', GOSUMDB='off', GOTOOLCHAIN='local')
STABLE = set(t.split('::', 1)[1] for t in json.load(open('/root/.vp/BASELINE.json'))['stable_pass'])


def run_one(c):
    d = tempfile.mkdtemp(prefix='mut.')
    try:
        work = os.path.join(d, 'repo')
        shutil.copytree(REPO, work, ignore=shutil.ignore_patterns('.git'))
        p = os.path.join(work, c['file'])
        src = open(p).read()
        n = src.count(c['old'])
        nth = c.get('nth')
        if n == 0 or (n > 1 and nth is None):
            return c, 'bad-pattern(%d)' % n, []
        if nth is None:
            new = src.replace(c['old'], c['new'], 1)
        else:
            parts = src.split(c['old'])
            new = c['old'].join(parts[:nth + 1]) + c['new'] + c['old'].join(parts[nth + 1:])
        open(p, 'w').write(new)
        env = dict(ENV, GOCACHE=os.path.join(d, 'gocache'))
        b = subprocess.run(['go', 'build', './...'], cwd=work, env=env, capture_output=True, text=True)
        if b.returncode != 0:
            return c, 'no-compile', [b.stderr[-400:]]
        t = subprocess.run(['go', 'test', '-json', '-vet=off', '-count=1', '-timeout', '6m', './...'],
                           cwd=work, env=env, capture_output=True, text=True)
        res = {}
        for line in t.stdout.splitlines():
            try:
                e = json.loads(line)
            except ValueError:
                continue
            if e.get('Test') and e.get('Action') in ('pass', 'fail'):
                res[e['Test']] = e['Action']
        failed = sorted(x for x in STABLE if res.get(x) != 'pass')
        if failed:
            hard = sorted(x for x in STABLE if res.get(x) == 'fail')
            why = [l.strip()[:110] for l in t.stdout.splitlines() + t.stderr.splitlines()
                   if 'panic:' in l or 'test timed out' in l or 'fatal error:' in l][:2]
            return c, 'killed', (hard[:4] or ['(binary aborted, %d tests unreported)' % len(failed)]) + why
        diff = subprocess.run(['diff', '-u', '--label', 'a/' + c['file'], '--label', 'b/' + c['file'],
                               os.path.join(REPO, c['file']), p], capture_output=True, text=True).stdout
        os.makedirs(os.path.join(OUT, c['property']), exist_ok=True)
        open(os.path.join(OUT, c['property'], c['name'] + '.patch'), 'w').write(diff)
        return c, 'survived', []
    finally:
        shutil.rmtree(d, ignore_errors=True)


def main():
    args = sys.argv[1:]
    cands = json.load(open(args[0]))
    j = int(args[args.index('-j') + 1]) if '-j' in args else 4
    if '--only' in args:
        only = set(args[args.index('--only') + 1].split(','))
        cands = [c for c in cands if c['name'] in only]
    idx_path = os.path.join(OUT, 'index.json')
    index = json.load(open(idx_path)) if os.path.exists(idx_path) else {}
    with cf.ThreadPoolExecutor(j) as ex:
        for c, status, info in ex.map(run_one, cands):
            print('%-10s %-4s %-34s %s' % (status, c['property'], c['name'], '; '.join(info)), flush=True)
            if status == 'survived':
                index[c['name']] = {k: c[k] for k in ('property', 'file', 'expect', 'why')}
            else:
                index.pop(c['name'], None)
    json.dump(index, open(idx_path, 'w'), indent=1, sort_keys=True)


if __name__ == '__main__':
    main()
