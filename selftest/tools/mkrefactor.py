#!/usr/bin/env python3
"""Generates the must-pass refactor corpus: semantics-preserving edits of /repo (renames of locals, parameters
and receivers, reordering of independent statements, condition operand swaps, comment / layout changes,
unrelated additions). Each is written as selftest/refactors/<P>/<name>.patch; selftest/run.py expects the
property's check to stay quiet on every one of them."""
import os, re, subprocess, tempfile, shutil, sys
V='/verif'
def fn_body(src, header):
    i = src.index(header); j = src.index('\n}\n', i) + 3
    return i, j
def rename_in_func(src, header, old, new):
    i, j = fn_body(src, header)
    body = re.sub(r'(?<![\w.])' + re.escape(old) + r'(?!\w)', new, src[i:j])
    return src[:i] + body + src[j:]
def rep(src, old, new):
    assert src.count(old) >= 1, old
    return src.replace(old, new, 1)
R = []  # (property list, name, file, transform)
R.append((['C03','C04'], 'rename_locals_defaultcleaner', 'bigbuff.go', lambda s: rename_in_func(rename_in_func(s, 'func DefaultCleaner(', 'lowest', 'least'), 'func DefaultCleaner(', 'active', 'seen')))
R.append((['C03','C04'], 'rename_params_defaultcleaner', 'bigbuff.go', lambda s: rename_in_func(rename_in_func(s, 'func DefaultCleaner(', 'offsets', 'rel'), 'func DefaultCleaner(', 'size', 'n')))
R.append((['C03','C04'], 'rename_shift_fixedcleaner', 'bigbuff.go', lambda s: rename_in_func(s, 'func FixedBufferCleaner(', 'shift', 'dflt')))
R.append((['C18'], 'rename_params_retry', 'retry.go', lambda s: rename_in_func(rename_in_func(s, 'func ExponentialRetry(', 'rate', 'base'), 'func ExponentialRetry(', 'value', 'work')))
R.append((['C17','C11'], 'rename_receiver_worker', 'worker.go', lambda s: rename_in_func(rename_in_func(rename_in_func(s, 'func (x *Worker) Do(', 'x', 'w'), 'func (x *Worker) wait(', 'x', 'w'), 'func (x *Worker) do(', 'x', 'w').replace('func (w *Worker)', 'func (w *Worker)')))
R.append((['C17'], 'swap_condition_operands_worker', 'worker.go', lambda s: rep(s, 'if x == nil || fn == nil {', 'if fn == nil || x == nil {')))
R.append((['C04','C11'], 'swap_independent_stmts_cooldown', 'buffer.go', lambda s: rep(s, '''			timer = time.NewTimer(d)
			// clear any existing broadcast flag
			broadcast = false
''', '''			// clear any existing broadcast flag
			broadcast = false
			timer = time.NewTimer(d)
''')))
R.append((['C01','C03','C04','C05','C11','C12'], 'comments_and_layout_buffer', 'buffer.go', lambda s: rep(rep(s, 'func (b *Buffer) Close() (err error) {', '// Close shuts the buffer down (comment added by a refactor).\n\n\nfunc (b *Buffer) Close() (err error) {'), '	// update the buffer and the offset - this is the actual shift\n', '	// shift\n\n')))
R.append((['C01','C04','C11'], 'unrelated_helper_added', 'buffer.go', lambda s: s + '\n// bufferDebugName is an unrelated helper added by a refactor.\nfunc bufferDebugName(b *Buffer) string {\n\tif b == nil {\n\t\treturn "<nil>"\n\t}\n\treturn "buffer"\n}\n'))
R.append((['C13','C11'], 'rename_locals_channel', 'channel.go', None))
R.append((['C14','C11'], 'rename_receiver_workers', 'workers.go', None))
R.append((['C20'], 'rename_locals_attempt', 'attempt.go', None))
R.append((['C16'], 'rename_locals_context', 'context.go', None))
R.append((['C08','C06','C07'], 'comments_chancaster', 'chancaster.go', lambda s: s.replace('func (x *ChanCaster[C, V]) Add(', '// (refactor: comment only)\nfunc (x *ChanCaster[C, V]) Add(', 1)))
R.append((['C06','C07'], 'rename_local_chanpubsub_send', 'chanpubsub.go', lambda s: rename_in_func(s, 'func (x *ChanPubSub[C, V]) Send(', 'subscribers', 'subs')))
R.append((['C15'], 'rename_locals_notifier_publish', 'notifier.go', None))
R.append((['C19'], 'rename_locals_callable', 'callable.go', None))
R.append((['C09','C10'], 'rename_local_exclusive', 'exclusive.go', None))
R.append((['C02','C12'], 'rename_locals_range', 'bigbuff.go', lambda s: rename_in_func(s, 'func Range(', 'index', 'idx')))
R.append((['C05','C12'], 'rename_locals_waitcond', 'sync.go', lambda s: rename_in_func(s, 'func WaitCond(', 'cancel', 'stop')))

R.append((['C14','C11'], 'explicit_unlock_workers_count', 'workers.go', lambda s: rep(s, """	w.mutex.Lock()
	defer w.mutex.Unlock()
	return w.count
""", """	w.mutex.Lock()
	n := w.count
	w.mutex.Unlock()
	return n
""")))
R.append((['C03','C11'], 'explicit_unlock_buffer_size', 'buffer.go', lambda s: rep(s, """	b.mutex.RLock()
	defer b.mutex.RUnlock()

	return len(b.buffer)
""", """	b.mutex.RLock()
	size := len(b.buffer)
	b.mutex.RUnlock()

	return size
""")))
R.append((['C03','C04'], 'restructure_defaultcleaner_branches', 'bigbuff.go', lambda s: rep(s, """		// we need to ignore negative values
		if offset < 0 {
			continue
		}
		// we had at least one active consumer
		active = true
		// update the lowest if the current offset is lower
		if offset < lowest {
			lowest = offset
		}
""", """		// negative values are ignored
		if offset > 0 {
			// we had at least one active consumer
			active = true
			// update the lowest if the current offset is lower
			if lowest > offset {
				lowest = offset
			}
		}
""")))
R.append((['C13','C11'], 'else_branch_channel_rollback', 'channel.go', lambda s: rep(s, """	if pending == 0 {
		return errors.New("bigbuff.Channel.Rollback nothing to rollback")
	}

	c.rollback += pending

	return nil
""", """	if pending != 0 {
		c.rollback += pending
		return nil
	}

	return errors.New("bigbuff.Channel.Rollback nothing to rollback")
""")))
R.append((['C17','C11'], 'extract_helper_worker_start', 'worker.go', lambda s: rep(rep(s, """		x.stop, x.done = make(chan struct{}), make(chan struct{})
		go x.wait()
		go x.do(fn)
""", """		x.stop, x.done = newSignal(), newSignal()
		go x.wait()
		go x.do(fn)
"""), "func (x *Worker) wait() {", "func newSignal() chan struct{} { return make(chan struct{}) }\n\nfunc (x *Worker) wait() {")))

R.append((['C14','C11'], 'insert_noop_closure_workers_worker', 'workers.go', lambda s: rep(s, "func (w *Workers) worker() {\n", "func (w *Workers) worker() {\n\tdefer func() {}() // refactor: placeholder hook\n")))
R.append((['C04','C12','C11'], 'insert_closure_buffer_cleanup', 'buffer.go', lambda s: rep(s, "	// close the buffer on shutdown (e.g. panic in cleaner)\n	defer b.Close()\n", "	trace := func(string) {} // refactor: tracing hook\n	trace(\"cleanup started\")\n	// close the buffer on shutdown (e.g. panic in cleaner)\n	defer b.Close()\n")))

custom = {}
def reg(name):
    def d(f): custom[name] = f; return f
    return d
@reg('rename_locals_channel')
def _(s):
    for h in ['func (c *Channel) Commit(', 'func (c *Channel) Rollback(', 'func (c *Channel) Get(']:
        s = rename_in_func(s, h, 'c', 'ch')
    return s
@reg('rename_receiver_workers')
def _(s):
    for h in ['func (w *Workers) Call(', 'func (w *Workers) Wait(', 'func (w *Workers) Count(', 'func (w *Workers) worker(']:
        if h in s: s = rename_in_func(s, h, 'w', 'ws')
    return s
@reg('rename_locals_attempt')
def _(s):
    return rename_in_func(s, 'func LinearAttempt(', 'count', 'limit')
@reg('rename_locals_context')
def _(s):
    return rename_in_func(s, 'func CombineContext(', 'others', 'rest')
@reg('rename_locals_notifier_publish')
def _(s):
    return rename_in_func(s, 'func (n *Notifier) PublishContext(', 'valueRef', 'vref')
@reg('rename_locals_callable')
def _(s):
    return rename_in_func(s, 'func resolveArgs(', 'variadic', 'vtype')
@reg('rename_local_exclusive')
def _(s):
    return rename_in_func(s, 'func (e *Exclusive) call(', 'valid', 'stillValid')
ok = 0
for props, name, file, tf in R:
    tf = tf or custom[name]
    src = open('/repo/' + file).read()
    try:
        new = tf(src)
    except Exception as ex:
        print('SKIP', name, ex); continue
    if new == src:
        print('SKIP (no change)', name); continue
    d = tempfile.mkdtemp(prefix='mkref.')
    try:
        os.makedirs(d + '/a'); os.makedirs(d + '/b')
        open(d + '/a/' + file, 'w').write(src); open(d + '/b/' + file, 'w').write(new)
        diff = subprocess.run(['diff', '-u', 'a/' + file, 'b/' + file], cwd=d, capture_output=True, text=True).stdout
        # the refactored tree must build and be gofmt-clean enough to compile
        t = tempfile.mkdtemp(prefix='mkref.build.')
        for f in os.listdir('/repo'):
            if f.endswith('.go') or f in ('go.mod', 'go.sum'): shutil.copy('/repo/' + f, t)
        open(t + '/' + file, 'w').write(new)
        env = dict(os.environ, GOFLAGS='-mod=mod', GOPROXY='off', GOSUMDB='off', GOTOOLCHAIN='local')
        r = subprocess.run(['go', 'build', './...'], cwd=t, capture_output=True, text=True, env=env)
        shutil.rmtree(t)
        if r.returncode != 0:
            print('SKIP (does not build)', name, r.stderr[:300]); continue
        for p in props:
            os.makedirs(V + '/selftest/refactors/' + p, exist_ok=True)
            open(V + '/selftest/refactors/%s/%s.patch' % (p, name), 'w').write(diff)
        ok += 1
    finally:
        shutil.rmtree(d)
print('refactors written:', ok)
