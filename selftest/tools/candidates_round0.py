#!/usr/bin/env python3
# Candidate property-breaking edits (round 0). Emits candidates.json for try_mutants.py.
import json
T = '\t'
C = []
def m(name, prop, file, old, new, expect, why, nth=None):
    d = dict(name=name, property=prop, file=file, old=old, new=new, expect=expect, why=why)
    if nth is not None: d['nth'] = nth
    C.append(d)

# C01
m('c01_newconsumer_at_end', 'C01', 'buffer.go', 'b.consumers[c] = b.offset //', 'b.consumers[c] = b.offset + len(b.buffer) //',
  'Buffer.NewConsumer/ensures', 'consumer starts after the retained values instead of at the oldest retained one')
m('c01_put_rlock', 'C01', 'buffer.go', T+'b.mutex.Lock()\n'+T+'defer b.mutex.Unlock()\n\n'+T+'if err := b.ctx.Err(); err != nil {\n'+T+T+'return err\n'+T+'}\n\n'+T+'b.buffer = append',
  T+'b.mutex.RLock()\n'+T+'defer b.mutex.RUnlock()\n\n'+T+'if err := b.ctx.Err(); err != nil {\n'+T+T+'return err\n'+T+'}\n\n'+T+'b.buffer = append',
  'Buffer.Put/lockset:buffer', 'append under the read lock: concurrent Puts interleave/lose values')
m('c01_get_async_delta', 'C01', 'buffer.go', T+T+T+T+'if v, ok, err := b.get(c, offset); err != nil {\n'+T+T+T+T+T+'// async error case',
  T+T+T+T+'if v, ok, err := b.get(c, offset+1); err != nil {\n'+T+T+T+T+T+'// async error case',
  'Buffer.getAsync$1$1/ensures', 'blocked Get skips one value')
# C02
m('c02_rollback_decrement', 'C02', 'consumer.go', T+'c.offset = 0\n'+T+'c.cond.Broadcast()\n\n'+T+'return nil\n}\n\nfunc (c *consumer) Rollback', None, '', '')  # placeholder removed below
C.pop()
m('c02_rollback_decrement', 'C02', 'consumer.go', 'bigbuff.consumer.Rollback nothing to rollback")\n'+T+'}\n\n'+T+'c.offset = 0',
  'bigbuff.consumer.Rollback nothing to rollback")\n'+T+'}\n\n'+T+'c.offset--',
  'consumer.Rollback/ensures:ok', 'rollback rewinds one read instead of the whole uncommitted window')
m('c02_range_no_rollback_on_panic', 'C02', 'bigbuff.go', T+T+T+T+'if !success {\n'+T+T+T+T+T+'ok = false',
  T+T+T+T+'if !success && err != nil {\n'+T+T+T+T+T+'ok = false',
  'Range$1/panic-edge:rollback', 'a panicking callback leaves the in-flight value un-rolled-back')
m('c02_commit_keeps_delta', 'C02', 'consumer.go', T+'if err := c.producer.commit(c, c.offset); err != nil {\n'+T+T+'return err\n'+T+'}\n\n'+T+'c.offset = 0',
  T+'if err := c.producer.commit(c, c.offset); err != nil {\n'+T+T+'c.offset = 0\n'+T+T+'return err\n'+T+'}\n\n'+T+'c.offset = 0',
  'consumer.Commit/ensures:failed', 'a failed commit silently drops the uncommitted window')
# C03
m('c03_default_highest', 'C03', 'bigbuff.go', T+T+'if offset < lowest {', T+T+'if offset > lowest {',
  'DefaultCleaner/ensures:min', 'no longer the lowest offset')
m('c03_default_inactive_size', 'C03', 'bigbuff.go', T+'if !active {\n'+T+T+'return 0', T+'if !active {\n'+T+T+'return size',
  'DefaultCleaner/ensures:inactive', 'evicts everything when no consumer exists')
m('c03_fixed_ge', 'C03', 'bigbuff.go', T+T+'if size > max {', T+T+'if size >= max {',
  'FixedBufferCleaner$1/ensures', 'forced trim already at size == max')
m('c03_get_past_guard', 'C03', 'buffer.go', T+'if relative < 0 {', T+'if relative < -1 {',
  'Buffer.get/safe:index', 'consumer one behind the base indexes buffer[-1]')
m('c03_negatives_active', 'C03', 'bigbuff.go', T+T+'if offset < 0 {\n'+T+T+T+'continue\n'+T+T+'}', T+T+'if offset < 0 {\n'+T+T+T+'active = true\n'+T+T+T+'continue\n'+T+T+'}',
  'DefaultCleaner/ensures:inactive', 'lagging consumers count as active')
# C04
m('c04_no_rebroadcast_flag', 'C04', 'buffer.go', T+T+T+T+'broadcast = true\n'+T+T+T+T+'return', T+T+T+T+'return',
  'Buffer.cleanup$1/inv:stale', 'change during cooldown is forgotten')
m('c04_commit_no_broadcast', 'C04', 'buffer.go', T+'b.consumers[c] = offset\n'+T+'// we (may have) modified the buffer, broadcast it\n'+T+'b.cond.Broadcast()',
  T+'b.consumers[c] = offset', 'Buffer.commit/broadcast-after-change', 'commit does not wake the cleaner')
m('c04_delete_no_broadcast', 'C04', 'buffer.go', T+'delete(b.consumers, c)\n'+T+'// we (may have) modified the buffer, broadcast it\n'+T+'b.cond.Broadcast()',
  T+'delete(b.consumers, c)', 'Buffer.delete/broadcast-after-change', 'closing the slowest consumer does not un-pin the buffer (also wedges Buffer.Close)')
# C05
m('c05_watcher_no_lock', 'C05', 'sync.go', T+T+T+T+T+'l.Lock()\n'+T+T+T+T+T+'defer l.Unlock()\n', '',
  'WaitCond$1/lockset:broadcast', 'cancellation broadcast can fall between predicate check and park')
m('c05_get_err_advances', 'C05', 'consumer.go', T+'if result.Error != nil {\n'+T+T+'return nil, result.Error', T+'if result.Error != nil {\n'+T+T+'c.offset++\n'+T+T+'return nil, result.Error',
  'consumer.Get/ensures:err-keeps-delta', 'failed Get consumes a value')
# C06
m('c06_no_sendmu', 'C06', 'chanpubsub.go', T+'x.sendMu.Lock()\n'+T+'defer x.sendMu.Unlock()\n', '',
  'ChanPubSub.Send/lockset:sendMu', 'concurrent Sends are no longer serialised')
m('c06_subscribe_no_rlock', 'C06', 'chanpubsub.go', T+T+'x.sendingMu.RLock()\n'+T+T+'defer x.sendingMu.RUnlock()\n', '',
  'ChanPubSub.Add/lockset:subscribers-add', 'new subscriber can steal a copy owed to a standing one')
m('c06_unlock_before_ping', 'C06', 'chanpubsub.go', T+'sent = x.ping.Send(value) // N.B. supports concurrent decrements\n\n'+T+'skipSendingUnlock = true\n'+T+'x.sendingMu.Unlock() // we can add subscribers while waiting for pongs',
  T+'skipSendingUnlock = true\n'+T+'x.sendingMu.Unlock() // we can add subscribers while waiting for pongs\n\n'+T+'sent = x.ping.Send(value) // N.B. supports concurrent decrements',
  'ChanPubSub.Send/held@ping.Send', 'membership may change while copies are being delivered')
# C07
m('c07_broken_without_panic', 'C07', 'chanpubsub.go', T+'success = true\n\n'+T+'return\n}', T+'success = sent > 0\n\n'+T+'return\n}',
  'ChanPubSub.Send/markBroken-only-on-panic', 'a Send whose receivers all left marks the instance broken')
# C08
m('c08_add_no_rlock', 'C08', 'chancaster.go', T+T+T+'x.mutex.RLock()\n'+T+T+T+'defer x.mutex.RUnlock()\n', '',
  'ChanCaster.Add/lockset:add+', 'receiver registered in the middle of a Send')
m('c08_send_no_increase_check', 'C08', 'chancaster.go', T+'if tracker > receivers ||     //', T+'if false ||     //',
  'ChanCaster.Send/panics-iff:reset', 'unbalanced adds during a send go unnoticed')
m('c08_return_initial', 'C08', 'chancaster.go', T+'return int(tracker)\n}', T+'return int(receivers)\n}',
  'ChanCaster.Send/ensures:ret', 'Send counts absorbed copies as deliveries')
m('c08_range_bound', 'C08', 'chancaster.go', 'receivers > math.MaxInt32 {', 'receivers >= math.MaxInt32 {',
  'ChanCaster.Send/panics-iff:arm', 'false invariant panic at exactly MaxInt32 receivers')
# C09 / C10
m('c09_successor_not_running', 'C09', 'exclusive.go', T+T+T+'running: true,\n', T+T+T+'running: false,\n',
  'Exclusive.call$1/O1:successor-running', 'next batch may start while the current work still runs')
m('c10_delete_attached', 'C10', 'exclusive.go', T+T+'if nextItem.count == 0 {', T+T+'if nextItem.count <= 1 {',
  'Exclusive.call$1/O3:delete-when-unattached', 'key deleted while a call is attached: fresh chain can overlap')
m('c10_completed_sends_nil', 'C10', 'exclusive.go', T+T+T+T+T+'Result: item.result,\n'+T+T+T+T+T+'Error:  item.err,', T+T+T+T+T+'Result: item.result,\n'+T+T+T+T+T+'Error:  nil,',
  'Exclusive.call$1/msg@send:completed', 'coalesced callers do not get the identical error')
# C11
m('c11_channel_commit_nolock', 'C11', 'channel.go', T+'c.mutex.Lock()\n'+T+'defer c.mutex.Unlock()\n\n'+T+'if err := c.ctx.Err(); err != nil {', T+'if err := c.ctx.Err(); err != nil {',
  'Channel.Commit/lockset:buffer', 'unsynchronised Commit')
m('c11_notifier_unsub_nolock', 'C11', 'notifier.go', T+'n.mutex.Lock()\n'+T+'defer n.mutex.Unlock()\n\n'+T+'if subscribers := n.subscribers; subscribers != nil {', T+'if subscribers := n.subscribers; subscribers != nil {',
  'Notifier.Unsubscribe/lockset:subscribers', 'unsynchronised Unsubscribe')
m('c11_workers_count_nolock', 'C11', 'workers.go', T+'w.ensure()\n'+T+'w.mutex.Lock()\n'+T+'defer w.mutex.Unlock()\n'+T+'return w.count', T+'w.ensure()\n'+T+'return w.count',
  'Workers.Count/lockset:count', 'unsynchronised read of count')
# C12
m('c12_waitcond_no_cancel', 'C12', 'sync.go', T+T+T+T+'//noinspection GoDeferInLoop\n'+T+T+T+T+'defer cancel()\n', '',
  'WaitCond/mustcall:cancel', 'watcher goroutine leaks until the parent context ends')
m('c12_combine_no_stop', 'C12', 'context.go', T+'context.AfterFunc(ctx, stops.Stop)\n', T+'_ = stops.Stop\n',
  'CombineContext/mustcall:stop', 'AfterFunc registrations on long-lived contexts are never removed')
m('c12_put_after_close', 'C12', 'buffer.go', T+'if err := b.ctx.Err(); err != nil {\n'+T+T+'return err\n'+T+'}\n\n'+T+'b.buffer = append', T+'b.buffer = append',
  'Buffer.Put/ensures:closed', 'Put succeeds on a closed buffer')
# C13
m('c13_rollback_assign', 'C13', 'channel.go', T+'c.rollback += pending', T+'c.rollback = pending',
  'Channel.Rollback/ensures:ok', 'second rollback after a partial re-read loses values')
m('c13_commit_all', 'C13', 'channel.go', T+'pending := c.pending()\n\n'+T+'if pending == 0 {\n'+T+T+'return errors.New("bigbuff.Channel.Commit', T+'pending := len(c.buffer)\n\n'+T+'if pending == 0 {\n'+T+T+'return errors.New("bigbuff.Channel.Commit',
  'Channel.Commit/inv@release:rb', 'Commit drops values that were rolled back and not re-delivered')
m('c13_get_after_close', 'C13', 'channel.go', T+T+T+'err = c.ctx.Err()\n'+T+T+T+'if err != nil {\n'+T+T+T+T+'return true\n'+T+T+T+'}\n\n'+T+T+T+'// branch', T+T+T+'// branch',
  'Channel.Get$1/ensures:closed', 'values are taken from the source after Done')
# C14
m('c14_exit_ge', 'C14', 'workers.go', 'w.count > w.target {', 'w.count >= w.target {',
  'Workers.worker/inv@release:alive', 'all workers can exit with a non-empty queue')
m('c14_spawn_extra', 'C14', 'workers.go', T+'for w.count < count {', T+'for w.count <= count {',
  'Workers.Call/inv@release:maxReq', 'one worker more than requested')
# C15
m('c15_rebase_lt', 'C15', 'notifier.go', T+T+T+'if failureRefs[i] <= successIndex {', T+T+T+'if failureRefs[i] < successIndex {',
  'Notifier.PublishContext/loop1/preserve:corr', 'context guard points at the wrong send after a removal')
m('c15_keep_failure_case', 'C15', 'notifier.go', T+T+'copy(failureRefs[failureIndex:], failureRefs[failureIndex+1:])\n'+T+T+'failureRefs = failureRefs[:len(failureRefs)-1]',
  T+T+'failureRefs[failureIndex] = failureRefs[len(failureRefs)-1]\n'+T+T+'failureRefs = failureRefs[:len(failureRefs)-1]',
  'Notifier.PublishContext/loop1/preserve:sorted', 'refs no longer parallel to failureCases')
# C16
m('c16_conflated_first_cancel', 'C16', 'context.go', 'context.WithCancel(context.WithoutCancel(contexts[0]))', 'context.WithCancel(contexts[0])',
  'ConflatedContext/ensures:cancel-iff-all', 'cancelling the first input cancels the result')
m('c16_chain_double', 'C16', 'context.go', T+T+'if stop() {', T+T+'if stop(); true {',
  'ChainAfterFunc$1/ensures:f-iff-stop', 'f runs twice when both contexts are cancelled')
m('c16_combine_skip_precancelled', 'C16', 'context.go', T+T+T+'if other.Err() != nil {\n'+T+T+T+T+'ctx, cancel := context.WithCancel(ctx)\n'+T+T+T+T+'cancel()\n'+T+T+T+T+'return ctx\n'+T+T+T+'}\n', '',
  'CombineContext/ensures:precancelled', 'result not already cancelled when an input already is (only eventually)')
# C17
m('c17_unlock_while_stopping', 'C17', 'worker.go', T+'close(x.stop)\n'+T+'<-x.done\n'+T+'x.stop, x.done = nil, nil\n'+T+'x.mu.Unlock()',
  T+'close(x.stop)\n'+T+'x.mu.Unlock()\n'+T+'<-x.done\n'+T+'x.mu.Lock()\n'+T+'x.stop, x.done = nil, nil\n'+T+'x.mu.Unlock()',
  'Worker.wait/inv@release:stop-open', 'a Do arriving while stopping returns holding a closed stop channel')
# C18
m('c18_unpack_one_level', 'C18', 'bigbuff.go', T+T+'return unpackFatalError(err.err)', T+T+'return err.err',
  'unpackFatalError/ensures:not-fatal', 'nested fatal wrappers leak out')
m('c18_slots_plus_one', 'C18', 'retry.go', 'rand.Int63n(int64(c))', 'rand.Int63n(int64(c) + 1)',
  'calcExponentialRetry/ensures:range', 'delay may be 2^c slots')
m('c18_no_saturation', 'C18', 'retry.go', T+'if c > maxShiftUint32 {\n'+T+T+'c = maxShiftUint32\n'+T+'}\n'+T+'c = 1 << c', T+'c = 1 << c',
  'calcExponentialRetry/requires@Int63n', 'harmless today (caller saturates) — must-pass candidate if it survives?')
# C20
m('c20_no_recheck', 'C20', 'attempt.go', T+T+T+'if ctx.Err() != nil {\n'+T+T+T+T+'// guarantee at most one tick after context cancel\n'+T+T+T+T+'return\n'+T+T+T+'}\n', '',
  'LinearAttempt$1/fresh@send', 'ticks keep being forwarded after cancellation while the select keeps picking the ticker')
m('c20_count_default', 'C20', 'attempt.go', T+T+T+'default:\n'+T+T+T+T+'// slow consumer, retry send next tick', T+T+T+'default:\n'+T+T+T+T+'i++ // slow consumer',
  'LinearAttempt$1/loop0/preserve:sent', 'fewer than count values for a slow consumer — not a violation of "at most count"; expected to be must-pass for C20')
m('c20_le_count', 'C20', 'attempt.go', 'for i := 0; i < count; {', 'for i := 0; i <= count; {',
  'LinearAttempt$1/loop0/exit:sent', 'count+1 values')
json.dump(C, open('/verif/selftest/candidates_round0.json', 'w'), indent=1)
print(len(C), 'candidates')
