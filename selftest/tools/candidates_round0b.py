#!/usr/bin/env python3
import json
T='\t'
old = json.load(open('/verif/selftest/candidates_round0.json'))
C=[c for c in old if c['name'] in ('c01_put_rlock','c06_subscribe_no_rlock','c08_add_no_rlock','c13_get_after_close','c20_le_count','c16_chain_double','c01_newconsumer_at_end')]
def m(name, prop, file, old, new, expect, why, nth=None):
    d=dict(name=name, property=prop, file=file, old=old, new=new, expect=expect, why=why)
    if nth is not None: d['nth']=nth
    C.append(d)
m('c01_newconsumer_rlock','C01','buffer.go',T+'b.mutex.Lock()\n'+T+'defer b.mutex.Unlock()\n\n'+T+'if err := b.ctx.Err(); err != nil {\n'+T+T+'return nil, err',
  T+'b.mutex.RLock()\n'+T+'defer b.mutex.RUnlock()\n\n'+T+'if err := b.ctx.Err(); err != nil {\n'+T+T+'return nil, err','Buffer.NewConsumer/lockset:consumers','map written under the read lock')
m('c01_commit_rlock','C01','buffer.go','func (b *Buffer) commit(c *consumer, offset int) error {\n'+T+'b.mutex.Lock()\n'+T+'defer b.mutex.Unlock()',
  'func (b *Buffer) commit(c *consumer, offset int) error {\n'+T+'b.mutex.RLock()\n'+T+'defer b.mutex.RUnlock()','Buffer.commit/lockset:consumers','committed offset written under the read lock')
m('c01_getasync_first_nolock','C01','buffer.go',T+'b.mutex.RLock()\n'+T+'defer b.mutex.RUnlock()\n\n'+T+'// initial check','\t// initial check','Buffer.getAsync/requires@get:held','first get attempt reads buffer and map without any lock')
m('c03_diff_no_consumer_lock','C03','buffer.go',T+'cm.mutex.Lock()\n'+T+'defer cm.mutex.Unlock()\n','','Buffer.Diff/lockset:consumer.offset','Diff reads the delta unsynchronised, can be torn against a concurrent Get/Commit')
m('c05_watcher_no_lock','C05','sync.go',T*6+'l.Lock()\n'+T*6+'defer l.Unlock()\n','','WaitCond$1/lockset:broadcast','cancellation broadcast can fall between predicate check and park')
m('c06_unsub_no_absorb','C06','chanpubsub.go',T+T+T+'x.ping.Add(delta)\n','','ChanPubSub.Add/count:ping.Add','mid-send unsubscribe leaves its copy undelivered')
m('c09_next_released_on_resolve','C09','exclusive.go',T*6+'item.running = false\n'+T*6+'item.cond.Broadcast()',T*6+'item.running = false\n'+T*6+'nextItem.running = false\n'+T*6+'item.cond.Broadcast()','Exclusive.call$1/O2:release-after-return','next batch starts once the work resolved, not once it returned')
m('c12_conflated_no_guard_done','C12','context.go',T+'wg.Done() // decrement our first increment\n','','ConflatedContext/exit:waiter','waiter goroutine never exits')
m('c18_fatal_drops_result','C18','retry.go',T*4+'return result, unpackFatalError(err)',T*4+'return nil, unpackFatalError(err)','ExponentialRetry$1/ensures:fatal','fatal exit loses the accompanying result')
m('c18_first_call_ignores_ctx','C18','retry.go',T*3+'if err := ctx.Err(); err != nil {',T*3+'if err := ctx.Err(); err != nil && c > 0 {','ExponentialRetry$1/order:ctx-before-call','a call is started although the context is already cancelled')
m('c18_default_rate','C18','retry.go',T+T+'rate = defaultExponentialRetryRate',T+T+'rate = time.Millisecond','ExponentialRetry/ensures:rate','default slot is not 300ms')
m('c20_cap2','C20','attempt.go','make(chan time.Time, 1)','make(chan time.Time, 2)','LinearAttempt/ensures:cap','two values can be buffered')
m('c02_commit_before_fn','C02','bigbuff.go',T*3+'ok = fn(index, value)\n\n'+T*3+'err = consumer.Commit()\n'+T*3+'if err != nil {\n'+T*4+'return\n'+T*3+'}',
  T*3+'err = consumer.Commit()\n'+T*3+'if err != nil {\n'+T*4+'return\n'+T*3+'}\n\n'+T*3+'ok = fn(index, value)','Range$1/order:commit-after-fn','value committed before the callback ran: a panic loses it')
m('c17_stop_after_first_group','C17','worker.go',T+T+'wg.Wait()\n'+T+'}',T+T+'wg.Wait()\n'+T+T+'x.mu.Lock()\n'+T+T+'break\n'+T+'}','Worker.wait/order:close-when-wg-nil','stop closed while a later holder is outstanding')
m('c08_sub_bound','C08','chancaster.go','maxReceivers-receivers >= uint32(delta) {','maxReceivers-receivers > uint32(delta) {','ChanCaster.Add/panics-iff:sub','false invariant panic when deregistering from a full caster')
m('c15_skip_cancelled_check','C15','notifier.go',T+T+'if keySubscriber.ctx != nil && keySubscriber.ctx.Err() != nil {\n'+T+T+T+'continue\n'+T+T+'}\n','','Notifier.PublishContext/loop0:eligible','harmless? cancelled subscriber still gets a failure case that fires at once — expected must-pass')
m('c14_wait_no_loop','C14','workers.go',T+'for w.count != 0 {\n'+T+T+'w.cond.Wait()\n'+T+'}',T+'if w.count != 0 {\n'+T+T+'w.cond.Wait()\n'+T+'}','Workers.Wait/ensures:zero','Wait may return after a spurious/unrelated wake-up with workers still running')
m('c13_buffer_alias','C13','channel.go',T+'result := make([]interface{}, len(c.buffer))\n'+T+'copy(result, c.buffer)\n\n'+T+'return result\n}\n\n// Close closes the consumer',T+'result := c.buffer\n\n'+T+'return result\n}\n\n// Close closes the consumer','Channel.Buffer/alias:ret','caller shares the backing array that Commit nils')
json.dump(C, open('/verif/selftest/candidates_round0b.json','w'), indent=1); print(len(C))
