#!/bin/bash
# usage: confirm_seed.sh <name> <property> <outdir-from-subagent>
# Confirms a sub-agent's seeded defect independently in a fresh scratch worktree of /repo (current HEAD of /repo):
# patch applies, builds, baseline suite passes (known-flaky tests ignored), demo fails with the patch and passes without.
# On success stores /verif/seeded/<name>/{patch.diff,demo_test.go,meta.json}. The worktree is removed afterwards.
set -u
name=$1; prop=$2; src=$3
export GOFLAGS=-mod=mod GOPROXY=off GOSUMDB=off GOTOOLCHAIN=local
wt=$(mktemp -d /tmp/confirm.XXXXXX)
rmdir "$wt"
git -C /repo worktree add -q --detach "$wt" HEAD || exit 2
cleanup() { git -C /repo worktree remove --force "$wt" >/dev/null 2>&1; rm -rf "$wt"; }
trap cleanup EXIT
log=$(mktemp)
flaky='TestChanPubSub_highContention|TestChannel_Get$|TestExclusive_CallAfter$|TestExclusive_Call_concurrent|TestChanCaster_Send_waitForNextFullCycle'
cd "$wt"
git apply "$src/patch.diff" || { echo "PATCH DOES NOT APPLY"; exit 1; }
go build ./... || { echo "DOES NOT BUILD"; exit 1; }
suite_ok=1
go test -json -vet=off -count=1 -timeout 25m ./... > "$log" 2>&1
fails=$(python3 - "$log" "$flaky" <<'PY'
import json,sys,re
fl=re.compile(sys.argv[2]); bad=[]
for l in open(sys.argv[1]):
    try: e=json.loads(l)
    except: continue
    if e.get('Action')=='fail' and e.get('Test') and not fl.search(e['Test'].split('/')[0]): bad.append(e['Test'])
print(' '.join(sorted(set(bad))))
PY
)
[ -n "$fails" ] && suite_ok=0
cp "$src/demo_test.go" zz_seed_demo_test.go
with_fail=0
for i in 1 2 3; do go test -vet=off -count=1 -run 'Seed' -timeout 300s . >/dev/null 2>&1 || with_fail=$((with_fail+1)); done
git apply -R "$src/patch.diff"
without_pass=0
for i in 1 2 3; do go test -vet=off -count=1 -run 'Seed' -timeout 300s . >/dev/null 2>&1 && without_pass=$((without_pass+1)); done
echo "seed $name: suite_ok=$suite_ok (other failures: $fails) demo_fails_with_patch=$with_fail/3 demo_passes_without=$without_pass/3"
if [ $suite_ok = 1 ] && [ $with_fail = 3 ] && [ $without_pass = 3 ]; then
  d=/verif/seeded/$name; mkdir -p "$d"
  cp "$src/patch.diff" "$d/patch.diff"; cp "$src/demo_test.go" "$d/demo_test.go"
  python3 - "$src/meta.json" "$d/meta.json" "$prop" <<'PY'
import json,sys
m=json.load(open(sys.argv[1])); m['property']=sys.argv[3]
m['confirmed']={'by':'selftest/tools/confirm_seed.sh in a fresh worktree of the pinned commit','suite':'go test -json -vet=off -count=1 ./... : no failures outside the known-flaky list','demo_with_patch':'fails 3/3','demo_without_patch':'passes 3/3'}
json.dump(m,open(sys.argv[2],'w'),indent=1)
PY
  echo "CONFIRMED -> $d"
else
  echo "NOT CONFIRMED"
fi
rm -f "$log"
