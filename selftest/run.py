#!/usr/bin/env python3
"""Must-fail / must-pass self-test of the checks.
  run.py [-p Cxx ...]   applies every patch under selftest/mutants/<P>/*.patch and seeded/*/patch.diff (meta.json names
                        the property) to a fresh scratch copy of /repo, runs `gobv check -p P` on it and expects exit 1;
                        patches under selftest/refactors/<P>/ are expected to exit 0 (must-pass).
Scratch copies live under a fresh mkdtemp and are removed immediately."""
import glob, json, os, shutil, subprocess, sys, tempfile
V = '/verif'
want = set(a for a in sys.argv[1:] if a.startswith('C'))
EVIDENCE = '--evidence' in sys.argv   # thorough tier: record the outcome in /verif/evidence/<id>.json, never fail the check
cases = []
for p in sorted(glob.glob(V + '/selftest/mutants/C*/*.patch')):
    cases.append((p.split('/')[-2], p, 1))
for d in sorted(glob.glob(V + '/seeded/*/')):
    m = json.load(open(d + 'meta.json'))
    cases.append((m['property'], d + 'patch.diff', 1))
for p in sorted(glob.glob(V + '/selftest/refactors/C*/*.patch')):
    cases.append((p.split('/')[-2], p, 0))
claimed = set(c['property_id'] for c in json.load(open(V + '/MANIFEST.json'))['checks'])
ok = bad = skipped = 0
rows = []

def one(case):
    prop, patch, expect = case
    if prop not in claimed:
        return (prop, patch, 'SKIP (property not claimed)', 'skip')
    d = tempfile.mkdtemp(prefix='selftest.')
    try:
        for f in glob.glob('/repo/*.go') + ['/repo/go.mod', '/repo/go.sum']:
            shutil.copy(f, d)
        r = subprocess.run(['patch', '-s', '-p1', '-d', d, '-i', patch], capture_output=True, text=True)
        if r.returncode != 0:
            return (prop, patch, 'PATCH-FAILED ' + r.stdout[:100], 'patchfail')
        out = tempfile.mkdtemp(prefix='selftest.out.')
        r = subprocess.run([V + '/bin/gobv', 'check', '-p', prop, '-repo', d, '-out', out], capture_output=True, text=True, env=dict(os.environ, GOBV_NO_REPLAY='1'))  # replays (overlay go test runs) are exercised separately
        shutil.rmtree(out)
        viol = [l for l in r.stdout.splitlines() if l.startswith('VIOLATION')]
        good = (r.returncode == 1 and viol) if expect == 1 else (r.returncode == 0 and not viol)
        if good:
            what = ('caught: ' + ', '.join(sorted(set(v.split('obligation=')[1].split()[0] for v in viol)))[:300]) if expect == 1 else 'quiet'
            return (prop, patch, 'OK ' + what, 'ok')
        return (prop, patch, 'MISSED (exit %d) %s' % (r.returncode, (r.stdout + r.stderr)[-300:].replace('\n', ' | ')), 'bad')
    finally:
        shutil.rmtree(d, ignore_errors=True)

import concurrent.futures
todo = [c for c in cases if not want or c[0] in want]
with concurrent.futures.ThreadPoolExecutor(max_workers=4) as ex:
    for prop, patch, res, kind in ex.map(one, todo):
        rows.append((prop, patch, res))
        if kind == 'ok':
            ok += 1
        elif kind == 'skip':
            skipped += 1
        elif kind == 'patchfail':
            bad += (0 if EVIDENCE else 1)
        else:
            bad += 1
for prop, patch, res in rows:
    print('%-4s %-60s %s' % (prop, patch.replace(V + '/', '')[-60:], res))
print('selftest: %d ok, %d bad, %d skipped' % (ok, bad, skipped))
if EVIDENCE:
    for prop in sorted(want):
        f = V + '/evidence/%s.json' % prop
        try:
            ev = json.load(open(f))
        except Exception:
            continue
        mine = [(p, r) for (pp, p, r) in rows if pp == prop]
        ev.setdefault('coverage', {})['selftest'] = {
            'what': 'must-fail corpus (mutants, seeded changes, reverts of fix: commits) and must-pass corpus (harmless refactors) applied to scratch copies of the current tree; informational, does not change the exit code',
            'must_fail_caught': sum(1 for p, r in mine if r.startswith('OK caught')),
            'must_pass_quiet': sum(1 for p, r in mine if r.startswith('OK quiet')),
            'not_as_expected': [p.replace(V + '/', '') for p, r in mine if r.startswith('MISSED')],
            'patch_did_not_apply': [p.replace(V + '/', '') for p, r in mine if r.startswith('PATCH-FAILED')],
        }
        json.dump(ev, open(f, 'w'), indent=1)
    sys.exit(0)
sys.exit(1 if bad else 0)
