#!/usr/bin/env python3
"""usage: cands.py [-a] <property>... — apply every candidate edit of selftest/candidates_round0*.json for these properties
(including the ones the existing test-suite kills; they still exercise the checks) to a scratch copy of /repo and run
`gobv check -p P` on it. Prints which admitted obligations fail."""
import json, sys, os, glob, shutil, subprocess, tempfile
props = [a for a in sys.argv[1:] if a.startswith('C')]
cands = []
for f in sorted(glob.glob('/verif/selftest/candidates_*.json')):
    d = json.load(open(f))
    for c in (d if isinstance(d, list) else d.get('candidates', [])):
        if isinstance(c, dict) and c.get('property') in props:
            cands.append(c)
seen = set()
missed = 0
for c in cands:
    if c['name'] in seen:
        continue
    seen.add(c['name'])
    d = tempfile.mkdtemp(prefix='cand.')
    out = tempfile.mkdtemp(prefix='cand.out.')
    try:
        for f in glob.glob('/repo/*.go') + ['/repo/go.mod', '/repo/go.sum']:
            shutil.copy(f, d)
        ok = True
        for ed in (c.get('edits') or [c]):
            p = os.path.join(d, ed['file'])
            s = open(p).read()
            if ed['old'] not in s:
                ok = False
                break
            open(p, 'w').write(s.replace(ed['old'], ed['new'], 1))
        if not ok:
            print('%-4s %-36s OLD-TEXT-NOT-FOUND' % (c['property'], c['name']))
            continue
        r = subprocess.run(['/verif/bin/gobv', 'check', '-p', c['property'], '-repo', d, '-out', out], capture_output=True, text=True)
        viol = sorted(set(l.split('obligation=')[1].split()[0] for l in r.stdout.splitlines() if l.startswith('VIOLATION')))
        tag = 'caught' if r.returncode == 1 else ('MISSED' if r.returncode == 0 else 'ERROR(exit %d) %s' % (r.returncode, r.stderr[-200:]))
        if r.returncode != 1:
            missed += 1
        print('%-4s %-36s %-7s %s' % (c['property'], c['name'], tag, ', '.join(viol)[:200]))
    finally:
        shutil.rmtree(d); shutil.rmtree(out)
print('missed:', missed)
