NA_DEFAULT.update({
})
