#!/usr/bin/env python3
"""Regenerates /verif/MANIFEST.json from the table below and /verif/baseline/obligations.json.
A property is claimed iff it has admitted obligations in the baseline and an entry in CLAIMS."""
import json, os, subprocess

V = '/verif'
base = json.load(open(V + '/baseline/obligations.json'))['properties'] if os.path.exists(V + '/baseline/obligations.json') else {}

CLAIMS = {
 # id: (level text, level_note, technique, design_ref)
}
exec(open(V + '/tools/claims.py').read())

NA_DEFAULT = {}
exec(open(V + '/tools/not_applicable.py').read())

hook_commits = subprocess.run(['git', '-C', '/repo', 'log', '--format=%H %s'],
                              capture_output=True, text=True).stdout.strip().splitlines()
hook_commits = [l.split()[0] for l in hook_commits if l.split(' ', 1)[1].startswith('verif:')]

checks = []
na = []
for i in range(1, 21):
    pid = 'C%02d' % i
    if pid in CLAIMS and base.get(pid):
        text, note, tech, ref = CLAIMS[pid]
        checks.append({
            'property_id': pid,
            'quick_cmd': '/verif/bin/gobv check -p %s -tier quick' % pid,
            'thorough_cmd': "sh -c '/verif/bin/gobv check -p %s -tier thorough; rc=$?; if [ $rc -ne 0 ]; then exit $rc; fi; python3 /verif/selftest/run.py --evidence %s | tail -1'" % (pid, pid),
            'evidence_file': '/verif/evidence/%s.json' % pid,
            'replay_cmd_template': '/verif/bin/gobv replay {path}',
            'engine': 'gobv',
            'level_claimed': {'category': 'proof', 'text': text, 'design_ref': ref},
            'level_note': note,
            'technique': tech,
        })
    else:
        na.append({'property_id': pid, 'reason': NA_DEFAULT.get(pid, 'no obligation of this property is discharged by the contract verifier in this revision (contracts for its functions not yet written); not claimed rather than switching technique')})

m = {
 'version': 1,
 'setup_cmd': 'cd /verif/engine && GOFLAGS=-mod=vendor GOPROXY=off GOSUMDB=off GOTOOLCHAIN=local go build -o /verif/bin/gobv ./cmd/gobv',
 'hooks': {
  'guard': 'verif',
  'enable': 'go test -tags verif (guarded files: /repo/zz_contracts_verif.go, comment-only contracts read by gobv as text; /repo/zz_hooks_verif.go, the scheduling hook verifBeforeCondWait used only by the replay of finding F6 — its call site in sync.go WaitCond calls a no-op (zz_hooks_noverif.go) when the tag is off). gobv itself analyses the production build (tag off).',
  'baseline_off_cmd': 'cd /repo && GOFLAGS=-mod=mod GOPROXY=off GOSUMDB=off GOTOOLCHAIN=local go test -json -vet=off -count=1 -timeout 25m ./...',
  'source_commits': hook_commits,
  'add_only': True,
 },
 'engines': [{
  'name': 'gobv', 'path': '/verif/engine',
  'serves_properties': [c['property_id'] for c in checks],
  'kind_free_text': 'contract-based deductive verifier for Go written for this task: VC generation by symbolic execution of go/ssa (naive form) of /repo rebuilt on every run, contracts in /repo/zz_contracts_verif.go, obligations discharged by z3 4.8.12 / z3 5.1.0 / cvc5 1.0',
 }],
 'checks': checks,
 'not_applicable': na,
 'notes': 'Every check reloads /repo from the working tree. An alarm is raised for obligations listed in /verif/baseline/obligations.json (those discharged on the unchanged tree) that fail or can no longer be generated, and for proof obligations of code sites that did not exist when the baseline was taken and have a counterexample (unless their family already had an undischarged member on the unchanged tree). Undecided new obligations never alarm. See DESIGN.md §10.',
}
json.dump(m, open(V + '/MANIFEST.json', 'w'), indent=1)
print('claimed:', [c['property_id'] for c in checks])
